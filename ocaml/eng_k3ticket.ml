(* eng_k3ticket.ml — tracecheck for the K3 ticket-protocol model (coq/Chan/TicketK3.v).
   engine exe: modelrun_k3ticket
   case (one line):
     <cap> <cc> <n> <K> <idbase> { TH <P|C> <op>.. } RES <tI=[res,..]>.. T <event>..
     event = tid,kind,var,ord,ordfail,a,b,r,ok   (one token per traced facade event, in trace order)
     tid tI = I-th thread of the scenario; producers are numbered in scenario order
   The driver maps every trace event to (tid, choice, event); inserts the untraced payload-cell
   steps (KData before a producer's `store state SET`, after the consumer's `load state` = SET);
   checks that cc, n, K (computed by the engine from the constants in the CURRENT source) are what
   the model's `real_cc / real_n / real_kk` give for this cap; runs the extracted `replay_ticket`;
   then compares the API results recorded by the model with the implementation's.
   output: `ok <n events> <done|open>`  |  `reject at <i>: ...`  |  `results differ: ...` | `params differ: ...`
   `modelrun_k3ticket --skeleton` prints the (function, row, var, op, Ordering) table read off the
   model's step function (D3). *)
open Model_k3ticket
open Conv_k3ticket

let n i = n_of_int i
let choice_go : Obj.t = Obj.repr 0

let split_var (v : string) : string * int =
  match String.index_opt v '#' with
  | Some i -> (String.sub v 0 i, int_of_string (String.sub v (i + 1) (String.length v - i - 1)))
  | None -> (v, 0)

let ends_with s suf =
  let ls = String.length s and lf = String.length suf in
  ls >= lf && String.sub s (ls - lf) lf = suf

let var_of (v : string) : evar =
  let base, k = split_var v in
  match base with
  | "shared.g_tail" -> VGtail
  | "shared.progress" -> VProgress
  | "shared.drained" -> VDrained
  | "shared.consumer_retired" -> VRetired
  | "shared.id" -> VId (n k)
  | "shared.state" -> VState (n k)
  | "shared.head" -> VHead
  | "shared.sender_count" -> VSenderCnt
  | "shared.receiver_dropped" -> VRdropped
  | "shared.run_cap" -> VRunCap
  | "shared.sync_recv_waiter_count" -> VSrwc
  | "shared.async_recv_waiter_count" -> VArwc
  | "shared.sync_send_waiter_count" -> VSswc
  | "shared.async_send_waiter_count" -> VAswc
  | "shared.sync_recv_waiter" -> VLkSrw
  | "shared.async_recv_waiter" -> VLkArw
  | "shared.sync_send_waiters" -> VLkSsw
  | "shared.async_send_waiters" -> VLkAsw
  | "-" -> VNone
  (* each handle's `closed` flag is only ever touched by the thread that owns the handle *)
  | s when ends_with s ".closed" -> VClosed
  | s -> failwith ("unknown variable " ^ s)

let ord_of = function
  | "Rlx" -> ORlx | "Acq" -> OAcq | "Rel" -> ORel | "AcqRel" -> OAcqRel | "SeqCst" -> OSeqCst
  | "-" -> ONone
  | s -> failwith ("unknown ordering " ^ s)

let show_var = function
  | VGtail -> "g_tail" | VProgress -> "progress" | VDrained -> "drained" | VRetired -> "consumer_retired"
  | VId j -> Printf.sprintf "id#%d" (int_of_n j) | VState q -> Printf.sprintf "state#%d" (int_of_n q)
  | VHead -> "head" | VSenderCnt -> "sender_count" | VRdropped -> "receiver_dropped" | VClosed -> "closed"
  | VRunCap -> "run_cap"
  | VSrwc -> "sync_recv_waiter_count" | VArwc -> "async_recv_waiter_count"
  | VSswc -> "sync_send_waiter_count" | VAswc -> "async_send_waiter_count"
  | VLkSrw -> "sync_recv_waiter" | VLkArw -> "async_recv_waiter"
  | VLkSsw -> "sync_send_waiters" | VLkAsw -> "async_send_waiters"
  | VData -> "data" | VNone -> "-"
let show_kind = function
  | KLoad -> "load" | KStore -> "store" | KFadd -> "fadd" | KFsub -> "fsub" | KCas -> "cas" | KFence -> "fence"
  | KLock -> "lock" | KUnlock -> "unlock" | KSpin -> "spin" | KData -> "data"
let show_ord = function
  | ORlx -> "Rlx" | OAcq -> "Acq" | ORel -> "Rel" | OAcqRel -> "AcqRel" | OSeqCst -> "SeqCst" | ONone -> "-"
let show_ev (e : event0) =
  Printf.sprintf "%s %s %s/%s a=%d b=%d r=%d ok=%d" (show_kind e.ek) (show_var e.evr) (show_ord e.eo) (show_ord e.eof)
    (int_of_n e.ea) (int_of_n e.eb) (int_of_n e.er) (if e.eok then 1 else 0)

let kind_of = function
  | "load" -> KLoad | "store" -> KStore | "fadd" -> KFadd | "fsub" -> KFsub | "cas" -> KCas | "fence" -> KFence
  | "lock" -> KLock | "unlock" -> KUnlock | "spin" -> KSpin
  | s -> failwith ("event kind outside the model's alphabet: " ^ s)

let show_tid = function TC -> "consumer" | TP i -> Printf.sprintf "producer%d" (int_of_nat i)

(* one trace token -> list of ((tid, choice), event) (with the synthetic payload-cell steps) *)
let parse_ev (tidmap : tid0 array) (tok : string) : ((tid0 * Obj.t) * event0) list =
  match String.split_on_char ',' tok with
  | [ t; k; v; o; f; a; b; r; ok ] ->
      let ti = int_of_string (String.sub t 1 (String.length t - 1)) in
      let tid = tidmap.(ti) in
      let kind = kind_of k in
      let var = var_of v in
      let a = int_of_string a and b = int_of_string b and r = int_of_string r in
      let mk ea eb er eok = { ek = kind; evr = var; eo = ord_of o; eof = ord_of f; ea = n ea; eb = n eb; er = n er; eok } in
      (* operands the model does not carry are normalised: load has no operand, store/lock/fence/... no result *)
      let e =
        match kind with
        | KLoad -> mk 0 0 r true
        | KStore -> mk a 0 0 true
        | KFadd | KFsub -> mk a 0 r true
        | KCas -> mk a b r (ok = "1")
        | KLock -> mk 0 0 0 (ok = "1")
        | _ -> mk 0 0 0 true
      in
      let me = ((tid, choice_go), e) in
      let is_state = match var with VState _ -> true | _ -> false in
      if kind = KStore && is_state && a = 1 && tid <> TC then [ ((tid, choice_go), eData); me ]
      else if kind = KLoad && is_state && r = 1 && tid = TC then [ me; ((tid, choice_go), eData) ]
      else [ me ]
  | _ -> failwith ("bad event token " ^ tok)

(* The traced backend numbers the instances of one creation site (`state#k`, `id#k`) by FIRST ACCESS,
   not by position, so a slot / table entry is identified only up to a renaming.  Pass 1 walks the
   model along the trace and binds each ordinal, at its first occurrence, to the physical index the
   model accesses at that point (injectively: an ordinal or an index that is already bound
   elsewhere is mapped to an impossible index, which the strict replay of pass 2 rejects). *)
let rename cap cc nn kk npn (s0 : st) (tr : ((tid0 * Obj.t) * event0) list) : ((tid0 * Obj.t) * event0) list =
  let smap : (int, int) Hashtbl.t = Hashtbl.create 64 and srev : (int, int) Hashtbl.t = Hashtbl.create 64 in
  let imap : (int, int) Hashtbl.t = Hashtbl.create 8 and irev : (int, int) Hashtbl.t = Hashtbl.create 8 in
  let bind m r k q =
    if not (Hashtbl.mem m k) then
      if Hashtbl.mem r q then Hashtbl.replace m k (1_000_000 + k) else (Hashtbl.replace m k q; Hashtbl.replace r q k)
  in
  let rec walk s = function
    | [] -> ()
    | ((t, _), e) :: r -> (
        match step0 cap cc nn kk npn s t with
        | None -> ()
        | Some (s', e') ->
            (match (e.evr, e'.evr) with
             | VState k, VState q -> bind smap srev (int_of_n k) (int_of_n q)
             | VId k, VId j -> bind imap irev (int_of_n k) (int_of_n j)
             | _ -> ());
            walk s' r)
  in
  walk s0 tr;
  let get m k = match Hashtbl.find_opt m k with Some q -> q | None -> 1_000_000 + k in
  List.map
    (fun (tc, e) ->
      match e.evr with
      | VState k -> (tc, { e with evr = VState (n (get smap (int_of_n k))) })
      | VId k -> (tc, { e with evr = VId (n (get imap (int_of_n k))) })
      | _ -> (tc, e))
    tr

let show_val ((p, k) : val0) = Printf.sprintf "%d.%d" (int_of_nat p) (int_of_n k)
let show_pres = function
  | POk v -> "ok:" ^ show_val v | PFull v -> "full:" ^ show_val v | PClosed v -> "closed:" ^ show_val v
let show_cres = function RVal v -> "val:" ^ show_val v | REmpty -> "empty" | RDisc -> "disc"

(* implementation result token `ok:203` -> `ok:1.3` (payload id = (producer index + 1) * idbase + seq) *)
let conv_res (idbase : int) (s : string) : string =
  match String.split_on_char ':' s with
  | [ k; v ] -> let id = int_of_string v in Printf.sprintf "%s:%d.%d" k (id / idbase - 1) (id mod idbase)
  | _ -> s

(* `t0=[ok:101,full:102]` -> (0, ["ok:0.1"; "full:0.2"]) *)
let parse_res (idbase : int) (tok : string) : int * string list =
  match String.index_opt tok '=' with
  | Some i ->
      let ti = int_of_string (String.sub tok 1 (i - 1)) in
      let inner = String.sub tok (i + 2) (String.length tok - i - 3) in
      (ti, List.map (conv_res idbase) (List.filter (fun x -> x <> "") (String.split_on_char ',' inner)))
  | None -> failwith ("bad result token " ^ tok)

(* ops: ts | tsb<k> (try_send_batch of k >= 1 items) ; tr | trb<k> (try_recv_batch(k), k >= 1) *)
let batch_size (o : string) (pre : string) : positive =
  let lp = String.length pre in
  let k = int_of_string (String.sub o lp (String.length o - lp)) in
  if k < 1 then failwith ("empty batch in " ^ o) else pos_of_int k
let starts_with s pre = String.length s >= String.length pre && String.sub s 0 (String.length pre) = pre
let pop_of (o : string) : pop =
  if o = "ts" then TrySend else if starts_with o "tsb" then TrySendBatch (batch_size o "tsb")
  else failwith ("bad producer op " ^ o)
let cop_of (o : string) : cop =
  if o = "tr" then TryRecv else if starts_with o "trb" then TryRecvBatch (batch_size o "trb")
  else failwith ("bad consumer op " ^ o)

(* thread sections: TH P ops.. TH C ops.. *)
let rec threads (acc : (string * string list) list) (toks : string list) : (string * string list) list * string list =
  match toks with
  | "TH" :: k :: r ->
      let rec ops a = function
        | (("TH" | "RES") :: _) as rest -> (List.rev a, rest)
        | x :: rest -> ops (x :: a) rest
        | [] -> (List.rev a, [])
      in
      let o, rest = ops [] r in
      threads ((k, o) :: acc) rest
  | _ -> (List.rev acc, toks)

let rec upto (stop : string) (acc : string list) = function
  | t :: r when t = stop -> (List.rev acc, r)
  | t :: r -> upto stop (t :: acc) r
  | [] -> (List.rev acc, [])

let skel_line_ref : (string -> string) ref = ref (fun f -> "skel " ^ f)

let run (toks : string list) : string =
  match toks with
  | "S" :: _ -> "search ok"
  | "K" :: f :: _ -> !skel_line_ref f
  | capt :: cct :: nt :: kt :: idb :: rest ->
      let capi = int_of_string capt in
      let cap = real_cap (n capi) and cc = n (int_of_string cct) and nn = n (int_of_string nt)
      and kk = n (int_of_string kt) and idbase = int_of_string idb in
      if real_cc (n capi) <> cc || real_n (n capi) <> nn || real_kk (n capi) <> kk then
        Printf.sprintf "params differ: source constants give cc=%s n=%s K=%s, the model's real_* give cc=%d n=%d K=%d" cct
          nt kt (int_of_n (real_cc (n capi))) (int_of_n (real_n (n capi))) (int_of_n (real_kk (n capi)))
      else
        let ths, rest = threads [] rest in
        let rest = match rest with "RES" :: r -> r | _ -> failwith "expected RES" in
        let rt, tt = upto "T" [] rest in
        (* thread ids *)
        let np = List.length (List.filter (fun (k, _) -> k = "P") ths) in
        if List.length (List.filter (fun (k, _) -> k = "C") ths) <> 1 then failwith "exactly one consumer thread expected";
        let tidmap = Array.make (List.length ths) TC in
        let pprogs = Array.make (max np 1) [] in
        let cprog = ref [] in
        let pi = ref 0 in
        List.iteri
          (fun i (k, ops) ->
            if k = "P" then (
              tidmap.(i) <- TP (nat_of_int !pi);
              pprogs.(!pi) <- List.map pop_of ops;
              incr pi)
            else cprog := List.map cop_of ops)
          ths;
        let pp0 (i : nat) = let k = int_of_nat i in if k < np then pprogs.(k) else [] in
        let npn = nat_of_int np in
        let tr_raw = List.concat_map (parse_ev tidmap) tt in
        let tr = rename cap cc nn kk npn (init0 npn pp0 !cprog) tr_raw in
        let total = List.length tr in
        (match replay_ticket cap cc nn kk npn pp0 !cprog tr with
         | Inl (Some s) ->
             if s.bad then "reject: model reached an ownership violation (bad flag)"
             else
               let impl = List.map (parse_res idbase) rt in
               let model_of i =
                 match tidmap.(i) with
                 | TC -> List.map show_cres s.cresl
                 | TP p -> List.map show_pres (s.presl p)
               in
               let diff = List.filter (fun (i, r) -> model_of i <> r) impl in
               (match diff with
                | (i, r) :: _ ->
                    Printf.sprintf "results differ: thread t%d model [%s] impl [%s]" i (String.concat "," (model_of i))
                      (String.concat "," r)
                | [] ->
                    let all_done =
                      s.cpc = CDone && List.for_all (fun i -> s.ppc (nat_of_int i) = PDone) (List.init np (fun i -> i))
                    in
                    Printf.sprintf "ok %d %s" (List.length tt) (if all_done then "done" else "open"))
         | Inl None -> "reject: replay returned no state"
         | Inr _ ->
             (* diagnostics: find the first step the model refuses *)
             let rec go s i = function
               | [] -> "reject: (unreachable)"
               | ((t, _), e) :: r -> (
                   match step0 cap cc nn kk npn s t with
                   | None ->
                       Printf.sprintf "reject at %d/%d: model thread %s is not enabled, trace has %s" i total (show_tid t)
                         (show_ev e)
                   | Some (s', e') ->
                       if event_eqb e e' then go s' (i + 1) r
                       else
                         Printf.sprintf "reject at %d/%d: %s model expected [%s], trace has [%s]" i total (show_tid t)
                           (show_ev e') (show_ev e))
             in
             go (init0 npn pp0 !cprog) 0 tr)
  | _ -> failwith "bad case"

(* ---------------------------------------------------------------- D3 skeleton table *)
(* For every modelled Rust function: the model pcs that implement its facade operations, in the
   source order of the function body (calls to other modelled functions appear as `call`).  The
   (var, op, Ordering) of a PRow / CRow is NOT written here: it is read off the extracted step
   function by executing the pc.  `Lit` rows are facade operations of a modelled function that lie
   on a path outside the model's scope (waiter hand-off when a thread is parked, async wakers):
   they are kept verbatim so that any edit of the function's skeleton is still reported. *)
type row = PRow of ppc_t | CRow of cpc_t | Call of string | Lit of string

let skel_var = function VId _ -> "id" | VState _ -> "state" | v -> show_var v

let ev_of_row (r : row) : string =
  let cap = n 2 and cc = n 4 and nn = n 3 and kk = n 1 in
  let show (e : event0) =
    if e.ek = KCas then Printf.sprintf "%s.cas.%s/%s" (skel_var e.evr) (show_ord e.eo) (show_ord e.eof)
    else if e.ek = KLock then Printf.sprintf "%s.lock.-" (skel_var e.evr)
    else if e.ek = KFence then Printf.sprintf "-.fence.%s" (show_ord e.eo)
    else if e.ek = KSpin then "-.spin.-"
    else Printf.sprintf "%s.%s.%s" (skel_var e.evr) (show_kind e.ek) (show_ord e.eo)
  in
  let base = init0 (nat_of_int 1) (fun _ -> [ TrySend ]) [ TryRecv ] in
  match r with
  | Call f -> "call." ^ f
  | Lit s -> s
  | PRow pc -> (
      match step0 cap cc nn kk (nat_of_int 1) { base with ppc = (fun _ -> pc) } (TP (nat_of_int 0)) with
      | Some (_, e) -> show e
      | None -> "DISABLED")
  | CRow pc -> (
      match step0 cap cc nn kk (nat_of_int 1) { base with cpc = pc } TC with
      | Some (_, e) -> show e
      | None -> "DISABLED")

let t0 = n 0
let r1 = { rt = t0; rv = n 1; rm = n 1; rw = t0 }      (* a run whose current slot gets SET *)
let r0 = { rt = t0; rv = t0; rm = n 1; rw = t0 }       (* .. gets SKIP *)
let b0 = { bcold = false; bsent = t0; btotal = n 2 }
let b1 = { bcold = true; bsent = t0; btotal = n 2 }
let k1 = KOne XHot
let dr = DRun (R1, n 2, t0)

let skeleton : (string * row list) list =
  [ ("shared.rs::Shared::credit_ok", [ PRow (PS4 (XHot, t0)) ]);
    ("shared.rs::Shared::window_open", [ PRow (PS1 XHot); PRow (PS2 (XHot, t0)) ]);
    ("shared.rs::Shared::credit_ok_cold", [ PRow (PS4 (XCold, t0)) ]);
    ("shared.rs::Shared::window_open_cold", [ PRow (PS1 XCold); PRow (PS2 (XCold, t0)) ]);
    ("shared.rs::Shared::try_send_now",
     [ Call "window_open"; PRow (PS3 XHot); Call "credit_ok"; Call "write_slot"; Call "write_slot" ]);
    ("shared.rs::Shared::try_send_now_cold",
     [ Call "window_open_cold"; PRow (PS3 XCold); Call "credit_ok_cold"; Call "write_slot"; Call "write_slot" ]);
    ("shared.rs::Shared::claim_run",
     [ PRow (PC0 b0); PRow (PC1 b0); PRow (PC2 (b0, t0)); PRow (PC3 (b0, n 1)); PRow (PC4 (b0, t0, n 1)) ]);
    ("shared.rs::Shared::claim_run_cold",
     [ PRow (PC0 b1); PRow (PC1 b1); PRow (PC2 (b1, t0)); PRow (PC3 (b1, n 1)); PRow (PC4 (b1, t0, n 1)) ]);
    ("shared.rs::Shared::resolve_run",
     [ Call "ensure_resident"; PRow (PW1 (KBatch b0, r1)); Call "ensure_resident"; PRow (PW1 (KBatch b0, r0));
       Call "notify_receiver" ]);
    ("shared.rs::Shared::ensure_resident",
     [ PRow (PE1 (k1, r1)); PRow (PE2 (k1, r1, t0)); PRow (PEs (k1, r1, t0)); PRow (PE3 (k1, r1, t0)) ]);
    ("shared.rs::Shared::write_slot",
     [ Call "ensure_resident"; PRow (PW1 (k1, r1)); PRow (PW1 (k1, r0)); Call "notify_receiver" ]);
    ("shared.rs::Shared::notify_receiver",
     [ PRow (PN1 (k1, r1)); PRow (PN2 (k1, r1)); Lit "sync_recv_waiter.lock.-";
       Lit "sync_recv_waiter_count.store.Rel"; Lit "notified.store.Rel"; Lit "-.unpark.-";
       PRow (PN3 (k1, r1)); Lit "async_recv_waiter.lock.-"; Lit "async_recv_waiter_count.store.Rel"; Call "wake" ]);
    ("shared.rs::Shared::deq_once",
     [ CRow (CLock DTry1); CRow (CD1 DTry1); CRow (CM1 DTry1); CRow (CM2 DTry1); CRow (CD2 DTry1); CRow (CD3 DTry1);
       CRow (CD5 (DTry1, true)); Call "publish_progress"; CRow (CD6 DTry1); CRow (CD5 (DTry1, false));
       Call "publish_progress"; CRow (CM1 DTry1); CRow (CM2 DTry1) ]);
    ("shared.rs::Shared::deq_run",
     [ CRow (CLock dr); CRow (CD1 dr); CRow (CD2 dr); CRow (CD3 dr); CRow (CD5 (dr, true)); Call "publish_progress";
       CRow (CD5 (dr, false)); Call "publish_progress"; CRow (CD6 dr) ]);
    ("shared.rs::Shared::publish_progress",
     [ CRow (CP1 (UbFlush FEmpty)); CRow (CP2 (UbFlush FEmpty)); Call "notify_senders" ]);
    ("shared.rs::Shared::notify_senders",
     [ CRow (CP3 (UbFlush FEmpty)); CRow (CP4 (UbFlush FEmpty)); Lit "sync_send_waiters.lock.-"; Lit "notified.store.Rel";
       Lit "sync_send_waiter_count.store.Rel"; Lit "-.unpark.-"; CRow (CP5 (UbFlush FEmpty));
       Lit "async_send_waiters.lock.-"; Lit "async_send_waiter_count.store.Rel"; Call "wake" ]);
    ("shared.rs::Shared::flush_progress", [ CRow (CFl FEmpty); Call "publish_progress" ]);
    ("shared.rs::Shared::drain_straggler", [ Call "deq_once" ]);
    ("shared.rs::Shared::senders_alive", [ CRow (CSa None) ]);
    ("shared.rs::Shared::receivers_alive", [ PRow PRd ]);
    ("shared.rs::Shared::drop_sender", [ PRow PDropSub; Call "wake_all_receivers" ]);
    ("shared.rs::Shared::drop_receiver", [ CRow CDropSt; Call "wake_all_senders" ]);
    ("shared.rs::Shared::wake_all_receivers",
     [ PRow (PWk W4L1); Lit "sync_recv_waiter_count.store.Rel"; Lit "notified.store.Rel"; Lit "-.unpark.-";
       PRow (PWk W4L2); Lit "async_recv_waiter_count.store.Rel"; Call "wake" ]);
    ("shared.rs::Shared::wake_all_senders",
     [ CRow (CWk W6L1); Lit "notified.store.Rel"; CRow (CWk W6S1); CRow (CWk W6L2); CRow (CWk W6S2); Lit "-.unpark.-";
       Call "wake" ]);
    ("producer.rs::Sender::try_send",
     [ PRow PIdle; Call "receivers_alive"; Call "try_send_now"; Call "try_send_now_cold" ]);
    ("producer.rs::Sender::try_send_batch", [ PRow PIdle; Call "receivers_alive"; Call "try_send_run_batch" ]);
    ("producer.rs::try_send_run_batch",
     [ Call "receivers_alive"; Call "claim_run_cold"; Call "claim_run"; Call "resolve_run" ]);
    ("producer.rs::Sender::close", [ Lit "DROP-P"; Call "drop_sender" ]);
    ("producer.rs::Sender::drop", [ Call "close" ]);
    ("consumer.rs::Receiver::try_recv",
     [ CRow CIdle; Call "deq_once"; Call "senders_alive"; Call "drain_straggler"; Call "flush_progress";
       Call "flush_progress" ]);
    ("consumer.rs::Receiver::try_recv_batch", [ Call "try_recv_batch_mut" ]);
    ("consumer.rs::Receiver::try_recv_batch_mut", [ CRow CIdle; Call "try_recv_run" ]);
    ("consumer.rs::try_recv_run",
     [ Call "deq_run"; Call "flush_progress"; Call "flush_progress"; Call "senders_alive"; Call "deq_run";
       Call "flush_progress" ]);
    ("consumer.rs::Receiver::close", [ Lit "DROP-C"; Call "drop_receiver" ]);
    ("consumer.rs::Receiver::drop", [ Call "close" ]) ]

(* the Drop rows run with an empty program *)
let drop_row (tid : tid0) : string =
  let base = init0 (nat_of_int 1) (fun _ -> []) [] in
  match step0 (n 2) (n 4) (n 3) (n 1) (nat_of_int 1) base tid with
  | Some (_, e) -> Printf.sprintf "%s.cas.%s/%s" (skel_var e.evr) (show_ord e.eo) (show_ord e.eof)
  | None -> "DISABLED"

let skel_line (f : string) : string =
  match List.assoc_opt f skeleton with
  | Some rows ->
      let one = function
        | Lit "DROP-P" -> drop_row (TP (nat_of_int 0))
        | Lit "DROP-C" -> drop_row TC
        | r -> ev_of_row r
      in
      Printf.sprintf "skel %s :: %s" f (String.concat " ; " (List.map one rows))
  | None -> Printf.sprintf "skel %s :: <not modelled>" f

let () = skel_line_ref := skel_line

let print_skeleton () = List.iter (fun (f, _) -> print_endline (skel_line f)) skeleton

let () = if Array.length Sys.argv > 1 && Sys.argv.(1) = "--skeleton" then print_skeleton () else main run
