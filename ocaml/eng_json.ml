(* eng_json.ml — line driver for the encoder models (E-JSON: Log/Json.v, E-PATTERN: Log/Pattern.v).
   engine exe: modelrun_json.  Same case/output format as harness/seqdrv/src/bin/json.rs:
   case:   json    <flat|nest>              EV OP*
           pattern <full|nopanic> <s:PAT>   EV OP*
     EV  = <LEVEL> <ts_millis> <s:ts_render> <target> <name> <msg> <span> <parent> <tid> <tname>
     OP  = f <s:name> S|D <s:value> | f <s:name> I <i64> | f <s:name> B 0|1
         | f <s:name> F <bits>/<s:json text>/<s:display text> | d <s:opts> <s:render> -
   output: hex of the rendered bytes | PANIC | BADCASE <why>     (nopanic mode: OK | PANIC) *)
open Model_json
open Conv_json

exception Bad of string

let unhex (s : string) : n list =
  if String.length s mod 2 <> 0 then raise (Bad ("bad-hex " ^ s));
  List.init (String.length s / 2) (fun i ->
      match int_of_string_opt ("0x" ^ String.sub s (2 * i) 2) with
      | Some v -> n_of_int v
      | None -> raise (Bad ("bad-hex " ^ s)))

let hex (b : n list) : string =
  let buf = Buffer.create (2 * List.length b) in
  List.iter (fun x -> Buffer.add_string buf (Printf.sprintf "%02x" (int_of_n x))) b;
  Buffer.contents buf

let sval (t : string) : n list =
  if String.length t >= 2 && String.sub t 0 2 = "s:" then unhex (String.sub t 2 (String.length t - 2))
  else raise (Bad ("bad-string-token " ^ t))

let opt (t : string) : n list option = if t = "-" then None else Some (sval t)

let level_of = function
  | "TRACE" -> Trace | "DEBUG" -> Debug | "INFO" -> Info | "WARN" -> Warn | "ERROR" -> Error
  | t -> raise (Bad ("bad-level " ^ t))

(* decimal i64 text -> Z without going through OCaml's 63-bit int *)
let z_of_dec (s : string) : z =
  let neg = String.length s > 0 && s.[0] = '-' in
  let digits = if neg then String.sub s 1 (String.length s - 1) else s in
  if digits = "" then raise (Bad "bad-int");
  let ten = n_of_int 10 in
  let acc = ref N0 in
  String.iter (fun c ->
      if c < '0' || c > '9' then raise (Bad "bad-int");
      acc := N.add (N.mul !acc ten) (n_of_int (Char.code c - 48))) digits;
  let v = Z.of_N !acc in
  if neg then Z.opp v else v

let rec ops (toks : string list) (fields, dates) =
  match toks with
  | [] -> (List.rev fields, List.rev dates)
  | "d" :: o :: r :: _ :: rest -> ops rest (fields, (sval o, sval r) :: dates)
  | "f" :: name :: kind :: payload :: rest ->
      let k = sval name in
      if List.exists (fun (k', _) -> k' = k) fields then raise (Bad "dup-field");
      let v =
        match kind with
        | "S" -> VStr (sval payload)
        | "D" -> VDebug (sval payload)
        | "I" -> VInt (z_of_dec payload)
        | "B" -> VBool (payload = "1")
        | "F" -> (
            match String.split_on_char '/' payload with
            | [ _bits; j; d ] -> VFloat (sval j, sval d)
            | _ -> raise (Bad "bad-float"))
        | k -> raise (Bad ("bad-kind " ^ k))
      in
      ops rest ((k, v) :: fields, dates)
  | o :: _ :: _ :: _ :: _ -> raise (Bad ("bad-op " ^ o))
  | _ -> raise (Bad "ragged-ops")

let event (toks : string list) : event =
  match toks with
  | lv :: _ms :: ts :: target :: name :: msg :: span :: parent :: tid :: tname :: rest ->
      let fields, dates = ops rest ([], []) in
      { e_ts = sval ts; e_dates = dates; e_level = level_of lv; e_target = sval target;
        e_name = sval name; e_message = opt msg; e_span = opt span; e_parent = opt parent;
        e_tid = opt tid; e_tname = opt tname; e_fields = fields }
  | _ -> raise (Bad "short-event")

let run (toks : string list) : string =
  try
    match toks with
    | "json" :: mode :: rest ->
        let flat = (match mode with "flat" -> true | "nest" -> false | m -> raise (Bad ("bad-mode " ^ m))) in
        hex (render flat (event rest))
    | "pattern" :: mode :: pat :: rest ->
        let only_status = (match mode with "full" -> false | "nopanic" -> true | m -> raise (Bad ("bad-mode " ^ m))) in
        (match format_pattern (sval pat) (event rest) with
         | Panicked -> "PANIC"
         | Rendered out -> if only_status then "OK" else hex out)
    | k :: _ -> raise (Bad ("bad-kind " ^ k))
    | [] -> ""
  with Bad why -> "BADCASE " ^ why

let () = main run
