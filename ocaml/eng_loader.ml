(* eng_loader.ml — line driver for the E-LOADER model (coq/Cache/Loader.v).
   engine exe: modelrun_loader
   case:   seq  <L> <ttl|-> <grace|-> <wheel> <shards> (f K | i K V C | r K | x K | a DT | m)*
           conc <L> <H> <ttl|-> <grace|-> <shards> <scenario> <args..>
   The model does not distinguish L (sync/async loader), H (sync/async handle) or the shard count:
   the same output is expected from the implementation for all of them.
   Output format: see harness/seqdrv/src/bin/loader.rs. *)
open Model_loader
open Conv_loader

let ni s = n_of_int (int_of_string s)
let opt s = if s = "-" then None else Some (ni s)
let istr x = string_of_int (int_of_n x)

let rec parse_ops = function
  | [] -> []
  | "f" :: k :: r -> OFetch (ni k) :: parse_ops r
  | "i" :: k :: v :: c :: r -> OInsert (ni k, ni v, ni c) :: parse_ops r
  | "r" :: k :: r -> ORemove (ni k) :: parse_ops r
  | "x" :: k :: r -> OInvalidate (ni k) :: parse_ops r
  | "a" :: d :: r -> OAdvance (ni d) :: parse_ops r
  | "m" :: r -> OMaint :: parse_ops r
  | t :: _ -> failwith ("bad op token " ^ t)

let op_keys ops =
  List.sort_uniq compare
    (List.concat_map (function
       | OFetch k | ORemove k | OInvalidate k -> [int_of_n k]
       | OInsert (k, _, _) -> [int_of_n k]
       | _ -> []) ops)

let show_out = function
  | ORet v -> "v" ^ istr v
  | OOk -> "ok"
  | ORem None -> "r-"
  | ORem (Some v) -> "r" ^ istr v
  | OInv true -> "t"
  | OInv false -> "f"

(* "runs .. | res .. | cc .." over the key pool *)
let tail (s : state) (keys : int list) : string =
  let keys = List.sort_uniq compare keys in
  let runs = List.filter_map (fun k ->
      let n = int_of_nat (s.runs (n_of_int k)) in
      if n > 0 then Some (Printf.sprintf "%d:%d" k n) else None) keys in
  let res = List.filter_map (fun k ->
      match s.map (n_of_int k) with
      | Some e when is_fresh s.clock (Some e) ->
          let ttl = if int_of_n e.e_exp = 0 then "-" else string_of_int (int_of_n e.e_exp - int_of_n s.clock) in
          Some (Printf.sprintf "%d:%s:%s:%s" k (istr e.e_val) (istr e.e_cost) ttl)
      | _ -> None) keys in
  let cc = List.fold_left (fun a k -> match s.map (n_of_int k) with Some e -> a + int_of_n e.e_cost | None -> a) 0 keys in
  Printf.sprintf "runs %s | res %s | cc %d" (String.concat "," runs) (String.concat "," res) cc

let t0 = n_of_int 1

let run_seq toks =
  match toks with
  | _l :: ttl :: grace :: wheel :: _shards :: rest ->
      let cf = { c_ttl = opt ttl; c_grace = opt grace; c_wheel = ni wheel } in
      let ops = parse_ops rest in
      let (s, ok) = seq_run cf (init t0 (fun _ -> [])) ops in
      let outs = List.rev_map show_out s.outs in
      let outs = if ok then outs else outs @ ["FUEL"] in
      Printf.sprintf "%s | %s" (String.concat " ; " outs) (tail s (op_keys ops))
  | _ -> failwith "bad seq case"

(* ------------------------------------------------------------------ concurrent scenarios:
   the model schedule that corresponds to the harness's gate/pause protocol *)
let stepc cf s c = step cf s (Caller (nat_of_int c)) false
let stept cf s f = step cf s (Task (nat_of_int f)) false

(* caller c runs until it blocks or finishes *)
let rec run_caller cf s c = match stepc cf s c with Some s' -> run_caller cf s' c | None -> s

(* tasks selected by [pick] and all callers in [cs] run until nobody can move *)
let rec settle cf s (pick : int -> bool) (cs : int list) =
  let nf = int_of_nat s.nfut in
  let rec tasks s f moved =
    if f >= nf then (s, moved)
    else if pick f then (match stept cf s f with Some s' -> tasks s' f true | None -> tasks s (f + 1) moved)
    else tasks s (f + 1) moved in
  let (s, m1) = tasks s 0 false in
  let (s, m2) = List.fold_left (fun (s, m) c ->
      match stepc cf s c with Some s' -> (run_caller cf s' c, true) | None -> (s, m)) (s, false) cs in
  if m1 || m2 then settle cf s pick cs else s

let fut_key s f = match s.futs (nat_of_int f) with Some fu -> int_of_n fu.f_key | None -> -1

let range a b = List.init (max 0 (b - a)) (fun i -> a + i)

let summary (s : state) (keys : int list) =
  let tbl = Hashtbl.create 16 in
  List.iter (fun r ->
      let key = (int_of_n r.r_key, int_of_n r.r_val) in
      Hashtbl.replace tbl key (1 + try Hashtbl.find tbl key with Not_found -> 0)) s.rets;
  let l = List.sort compare (Hashtbl.fold (fun k n a -> (k, n) :: a) tbl []) in
  let rets = List.map (fun ((k, v), n) -> Printf.sprintf "%d:%d*%d" k v n) l in
  Printf.sprintf "rets %s | %s | hang 0 panic 0" (String.concat "," rets) (tail s keys)

let run_conc toks =
  match toks with
  | _l :: _h :: ttl :: grace :: _shards :: scen :: args ->
      let cf = { c_ttl = opt ttl; c_grace = opt grace; c_wheel = n_of_int 4 } in
      let a i = int_of_string (List.nth args i) in
      (* programs: caller ids are handed out in spawn order; [plan] lists (caller, op) *)
      let plan : (int * op) list ref = ref [] in
      let next = ref 0 in
      let newc o = let c = !next in incr next; plan := (c, o) :: !plan; c in
      let fetchers k m = List.map (fun _ -> newc (OFetch (n_of_int k))) (range 0 m) in
      (* the schedule is built as a function of the initial state, after all callers are known *)
      let all_tasks _ = true in
      let early : bool option ref = ref None in
      let probe : string option ref = ref None in
      (* herd: first caller runs until parked, its task enters the loader (TLoad), the others arrive *)
      let herd cf s cs =
        match cs with
        | [] -> s
        | c0 :: rest ->
            let s = run_caller cf s c0 in
            let f = int_of_nat s.nfut - 1 in
            let s = (match stept cf s f with Some s' -> s' | None -> s) in
            List.fold_left (fun s c -> run_caller cf s c) s rest in
      let (keys, sched) =
        match scen with
        | "herd" ->
            let k, m = a 0, a 1 in
            let cs = fetchers k m in
            ([k], fun s -> let s = herd cf s cs in settle cf s all_tasks cs)
        | "two" ->
            let k1, k2, m = a 0, a 1, a 2 in
            let c1 = fetchers k1 m in
            let c2 = fetchers k2 m in
            ([k1; k2], fun s ->
                let s = herd cf s c1 in
                let s = herd cf s c2 in
                let s = settle cf s (fun f -> fut_key s f = k2) c2 in
                settle cf s all_tasks (c1 @ c2))
        | "during" ->
            let k, m1, m2 = a 0, a 1, a 2 in
            let c1 = fetchers k m1 in
            let c2 = fetchers k m2 in
            ([k], fun s ->
                let s = herd cf s c1 in
                let s = settle cf s all_tasks c1 in
                List.fold_left (fun s c -> settle cf s all_tasks [c]) s c2)
        | "reload" | "expire" ->
            let k, m = a 0, a 1 in
            let c1 = fetchers k m in
            let e = newc (if scen = "reload" then OInvalidate (n_of_int k) else OAdvance (n_of_int (a 2))) in
            let c2 = fetchers k m in
            ([k], fun s ->
                let s = herd cf s c1 in
                let s = settle cf s all_tasks c1 in
                let s = run_caller cf s e in
                let s = herd cf s c2 in
                settle cf s all_tasks c2)
        | "stale" ->
            let k, m, dt = a 0, a 1, a 2 in
            let c0 = newc (OFetch (n_of_int k)) in
            let e = newc (OAdvance (n_of_int dt)) in
            let cs = fetchers k m in
            let cl = newc (OFetch (n_of_int k)) in
            ([k], fun s ->
                let s = settle cf s all_tasks [c0] in
                let s = run_caller cf s e in
                let s = List.fold_left (fun s c -> run_caller cf s c) s cs in
                let s = settle cf s all_tasks cs in
                settle cf s all_tasks [cl])
        | "late" ->
            let k = a 0 in
            let ca = newc (OFetch (n_of_int k)) in
            let cb = newc (OFetch (n_of_int k)) in
            ([k], fun s ->
                let s = run_caller cf s ca in
                let s = (match stept cf s 0 with Some s' -> s' | None -> s) in
                (* B: exactly its map-read section, then parked by the harness *)
                let s = (match stepc cf s cb with Some s' -> s' | None -> s) in
                let s = settle cf s all_tasks [ca] in
                settle cf s all_tasks [cb])
        | "tpause" ->
            let k, j = a 0, a 1 in
            let ca = newc (OFetch (n_of_int k)) in
            let cb = newc (OFetch (n_of_int k)) in
            ([k], fun s ->
                let s = run_caller cf s ca in
                let s = (match stept cf s 0 with Some s' -> s' | None -> s) in          (* loader ran *)
                let s = if j >= 3 then (match stept cf s 0 with Some s' -> s' | None -> s) else s in  (* map write *)
                let s = run_caller cf s cb in
                early := Some ((s.callers (nat_of_int cb)).c_pc = CIdle);
                settle cf s all_tasks [ca; cb])
        | "reinv" ->
            let k = a 0 in
            let ca = newc (OFetch (n_of_int k)) in
            let ci1 = newc (OInvalidate (n_of_int k)) in
            let cp = newc (OFetch (n_of_int k)) in
            let ci2 = newc (OInvalidate (n_of_int k)) in
            let cl = newc (OFetch (n_of_int k)) in
            ([k], fun s ->
                let s = run_caller cf s ca in
                let s = (match stept cf s 0 with Some s' -> s' | None -> s) in   (* loader ran *)
                let s = (match stept cf s 0 with Some s' -> s' | None -> s) in   (* map write; parked before the marker removal *)
                let s = run_caller cf s ci1 in
                let s = run_caller cf s cp in                                     (* the single poll *)
                probe := Some (if (s.callers (nat_of_int cp)).c_pc = CIdle then "ready" else "pending");
                let s = settle cf s all_tasks [ca; cp] in
                let s = run_caller cf s ci2 in
                settle cf s all_tasks [cl])
        | "stress" ->
            let k0, r, th = a 0, a 1, a 2 in
            let rounds = List.map (fun i -> (k0 + i, fetchers (k0 + i) th)) (range 0 r) in
            (List.map fst rounds, fun s ->
                List.fold_left (fun s (_, cs) ->
                    (* every caller performs its map read, then everything settles *)
                    let s = List.fold_left (fun s c -> match stepc cf s c with Some s' -> s' | None -> s) s cs in
                    settle cf s all_tasks cs) s rounds)
        | x -> failwith ("bad scenario " ^ x) in
      let progs = !plan in
      let prog_of (c : nat) = try [List.assoc (int_of_nat c) progs] with Not_found -> [] in
      let s = sched (init t0 prog_of) in
      if scen = "stress" then begin
        let r = a 1 in
        let dup = List.length (List.filter (fun k -> int_of_nat (s.runs (n_of_int k)) <> 1) keys) in
        let split = List.length (List.filter (fun k ->
            let vs = List.sort_uniq compare (List.filter_map (fun x -> if int_of_n x.r_key = k then Some (int_of_n x.r_val) else None) s.rets) in
            List.length vs > 1) keys) in
        Printf.sprintf "stress rounds %d dup %d split %d hang 0 panic 0" r dup split
      end else (match !early with
          | Some b -> Printf.sprintf "%s | early %d" (summary s keys) (if b then 1 else 0)
          | None -> (match !probe with
              | Some p -> Printf.sprintf "%s | probe %s" (summary s keys) p
              | None -> summary s keys))
  | _ -> failwith "bad conc case"

let run (toks : string list) : string =
  match toks with
  | "seq" :: rest -> run_seq rest
  | "conc" :: rest -> run_conc rest
  | _ -> failwith "bad mode"

let () = main run
