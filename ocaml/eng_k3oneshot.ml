(* eng_k3oneshot.ml — D2 trace check ("tracecheck") for the K3 oneshot model (coq/Chan/OneshotK3.v).
   engine exe: modelrun_k3oneshot
   case:    oneshot <cfg> | R: <rop>* | S: <sop> | S: <sop> ... || res=<r0>/<r1>/.. ;; <event> ; <event> ; ... [|| MON ...]
            cfg      = 0 code as it is | 1 fixA (F-36 repair) | 2 fixB (F-37 repair) | 3 both
            event    = t<tid> <kind> <var> <ord> <ordfail> a=<a> b=<b> r=<r> ok=<0|1> [@file:line]
   output:  ok <n traced events> res=<r0>/<r1>/.. [|| MON ...]     the trace is an execution of the model
            reject at <i>: model expected <e'>, trace has <e>
   The model has untraced steps (EvTau: AtomicWaker register / take, block_on's flag check, Arc release);
   under the baton scheduler untraced code runs in the slice of the traced event that precedes it, so
   after every traced step of a thread the driver runs that thread's enabled untraced steps.  The
   decisive check is the extracted strict `replay` (Conc.v) over the resulting (tid, event) list.
   A `K <function> <row>*` line is answered with the model's D3 rows of that function for <cfg> given
   as `K <cfg> <function> ...` -> `skel <function> :: <row> ; <row> ...`. *)
open Model_k3oneshot
open Conv_k3oneshot

let ord_of = function
  | "Rlx" -> Some Rlx | "Acq" -> Some Acq | "Rel" -> Some Rel | "AcqRel" -> Some AcqRel | _ -> None
let ord_s = function Rlx -> "Rlx" | Acq -> "Acq" | Rel -> "Rel" | AcqRel -> "AcqRel"

type raw = { tid : int; kind : string; var : string; o : string; f : string; a : string; b : string; r : string; ok : bool }

let field pfx s =
  let n = String.length pfx in
  if String.length s >= n && String.sub s 0 n = pfx then String.sub s n (String.length s - n)
  else failwith ("bad field " ^ s ^ " (want " ^ pfx ^ ")")

let parse_event (toks : string list) : raw =
  match toks with
  | t :: kind :: var :: o :: f :: a :: b :: r :: ok :: _ ->
      { tid = int_of_string (field "t" t); kind; var; o; f; a = field "a=" a; b = field "b=" b; r = field "r=" r;
        ok = field "ok=" ok = "1" }
  | _ -> failwith ("bad event: " ^ String.concat " " toks)

let split_on sep toks =
  let rec go cur acc = function
    | [] -> List.rev (List.rev cur :: acc)
    | x :: r when x = sep -> go [] (List.rev cur :: acc) r
    | x :: r -> go (x :: cur) acc r
  in
  go [] [] toks

let i_s x = string_of_int (int_of_nat x)
let var_s = function VState -> "state" | VRd -> "receiver_dropped" | VCnt -> "sender_count"
let tau_s = function
  | TReg -> "register" | TTake b -> "take(" ^ (if b then "some" else "none") ^ ")"
  | TChk b -> "woken.swap=" ^ (if b then "1" else "0") | TArc b -> "arc-release" ^ (if b then "(last)" else "")
let ev_s = function
  | EvLoad (v, o, r) -> Printf.sprintf "load %s %s r=%s" (var_s v) (ord_s o) (i_s r)
  | EvStore (v, o, a) -> Printf.sprintf "store %s %s a=%s" (var_s v) (ord_s o) (i_s a)
  | EvSwap (v, o, a, r) -> Printf.sprintf "swap %s %s a=%s r=%s" (var_s v) (ord_s o) (i_s a) (i_s r)
  | EvCas (v, o, f, a, b, r, k) ->
      Printf.sprintf "cas %s %s/%s a=%s b=%s r=%s ok=%d" (var_s v) (ord_s o) (ord_s f) (i_s a) (i_s b) (i_s r) (if k then 1 else 0)
  | EvFsub (v, o, a, r) -> Printf.sprintf "fsub %s %s a=%s r=%s" (var_s v) (ord_s o) (i_s a) (i_s r)
  | EvLock k -> Printf.sprintf "lock value_slot ok=%d" (if k then 1 else 0)
  | EvUnlock -> "unlock value_slot"
  | EvPark -> "park"
  | EvUnpark t -> "unpark t" ^ i_s t
  | EvTau k -> "[" ^ tau_s k ^ "]"

let num s = nat_of_int (int_of_string s)

let to_ev (e : raw) : ev =
  let var () = match e.var with
    | "core.state#0" -> VState | "core.receiver_dropped#0" -> VRd | "core.sender_count#0" -> VCnt
    | v -> failwith ("unknown variable " ^ v) in
  let slot () = if e.var <> "core.value_slot#0" then failwith ("unknown mutex " ^ e.var) in
  let o () = match ord_of e.o with Some x -> x | None -> failwith ("bad ordering " ^ e.o) in
  let f () = match ord_of e.f with Some x -> x | None -> failwith ("bad failure ordering " ^ e.f) in
  match e.kind with
  | "load" -> EvLoad (var (), o (), num e.r)
  | "store" -> EvStore (var (), o (), num e.a)
  | "swap" -> EvSwap (var (), o (), num e.a, num e.r)
  | "cas" -> EvCas (var (), o (), f (), num e.a, num e.b, num e.r, e.ok)
  | "fsub" -> EvFsub (var (), o (), num e.a, num e.r)
  | "lock" -> slot (); EvLock e.ok
  | "unlock" -> slot (); EvUnlock
  | "park" -> EvPark
  | "unpark" -> EvUnpark (num e.a)
  | k -> failwith ("unexpected event kind " ^ k)

let cfg_of (s : string) : cfg =
  let k = int_of_string s in { fixA = k land 1 = 1; fixB = k land 2 = 2 }

let rop_of = function "tr" -> RTry | "rv" -> RRecv | "c" -> RClose | o -> failwith ("bad receiver op " ^ o)
let sop_of = function "s" -> SSend | "d" -> SDrop | "cs" -> SCloseSend | o -> failwith ("bad sender op " ^ o)

let rres_s = function
  | RVal v -> "v" ^ i_s v | REmpty -> "e" | RDisc | RDiscL -> "d"
  | RFVal v -> "V" ^ i_s v | RFDisc | RFDiscL -> "D" | RCloseOk -> "c1" | RCloseErr -> "c0"
let sres_s = function SOk -> "ok" | SSentE -> "sent" | SClosedE | SClosedL -> "closed"

let is_tau = function EvTau _ -> true | _ -> false

let run_case (cfgs : string) (threads : (string * string list) list) (res : string) (evs : raw list) (tail : string) : string =
  let c = cfg_of cfgs in
  let rp = match threads with ("R:", ops) :: _ -> List.map rop_of ops | _ -> failwith "first thread must be R:" in
  let sops = Array.of_list (List.map (function
      | ("S:", [op]) -> sop_of op | ("S:", []) -> SDrop | _ -> failwith "sender thread: S: <op>") (List.tl threads)) in
  let n = Array.length sops in
  let sprog (t : nat) = let i = int_of_nat t in if i >= 1 && i <= n then sops.(i - 1) else SDrop in
  let nn = nat_of_int n in
  let s0 = init0 nn rp in
  let tab : 'a. (nat -> 'a) -> (nat -> 'a) -> nat -> 'a = fun f d ->
    let a = Array.init (n + 1) (fun i -> f (nat_of_int i)) in
    fun t -> let i = int_of_nat t in if i <= n then a.(i) else d t in
  let compact (s : st) : st = { s with spc = tab s.spc s0.spc } in
  let s = ref s0 in
  let start = ref s0 in
  let tr = ref [] in
  let failed = ref None in
  let ntr = ref 0 in
  let verify upto =
    (match replay_from c nn sprog rp !start (List.rev !tr) with
     | Inl (Some sf) -> s := compact sf; start := !s; tr := []
     | Inl None -> failed := Some "reject: replay returned no state"; raise Exit
     | Inr _ -> failed := Some (Printf.sprintf "reject at %d: extracted replay refused the chunk" upto); raise Exit) in
  (* run the untraced steps thread t is about to take *)
  let rec taus (t : nat) =
    match step0 c nn sprog !s t () with
    | Some (s', e) when is_tau e -> tr := ((t, ()), e) :: !tr; s := s'; taus t
    | _ -> () in
  (try
     List.iteri (fun i (r : raw) ->
         let t = nat_of_int r.tid in
         let e = to_ev r in
         (match step0 c nn sprog !s t () with
          | Some (s', e') when ev_eqb e e' -> tr := ((t, ()), e) :: !tr; s := s'; incr ntr; taus t
          | Some (_, e') ->
              failed := Some (Printf.sprintf "reject at %d: model expected t%d %s, trace has t%d %s" i r.tid (ev_s e') r.tid (ev_s e));
              raise Exit
          | None ->
              failed := Some (Printf.sprintf "reject at %d: model expected (thread t%d not enabled), trace has t%d %s" i r.tid r.tid (ev_s e));
              raise Exit);
         if (i + 1) mod 64 = 0 then verify i) evs;
     verify (List.length evs)
   with Exit -> ());
  match !failed with
  | Some m -> m
  | None ->
      let sf = !s in
      let per = Array.make (n + 1) [] in
      List.iter (fun r -> per.(0) <- rres_s r :: per.(0)) (rlog sf);
      List.iter (fun (t, r) -> let i = int_of_nat t in if i <= n then per.(i) <- sres_s r :: per.(i)) (slog sf);
      let mres = String.concat "/" (Array.to_list (Array.map (fun l -> if l = [] then "-" else String.concat "," (List.rev l)) per)) in
      if mres = res then Printf.sprintf "ok %d res=%s%s" !ntr res tail
      else Printf.sprintf "reject results: model res=%s, implementation res=%s" mres res

(* ------------------------------------------------------------------ skeleton (D3) *)
let fn_s = function
  | FnSend -> "core.rs::OneShotShared::send" | FnDec -> "core.rs::OneShotShared::decrement_senders"
  | FnMrd -> "core.rs::OneShotShared::mark_receiver_dropped" | FnTryRecv -> "core.rs::OneShotShared::try_recv"
  | FnPollRecv -> "core.rs::OneShotShared::poll_recv" | FnShDrop -> "core.rs::OneShotShared::drop"
  | FnSenderSend -> "mod.rs::Sender::send" | FnSenderClose -> "mod.rs::Sender::close"
  | FnSenderCloseInt -> "mod.rs::Sender::close_internal" | FnSenderDrop -> "mod.rs::Sender::drop"
  | FnRecvTry -> "mod.rs::Receiver::try_recv" | FnRecvClose -> "mod.rs::Receiver::close"
  | FnRecvCloseInt -> "mod.rs::Receiver::close_internal" | FnRecvDrop -> "mod.rs::Receiver::drop"
  | FnFutPoll -> "mod.rs::ReceiveFuture::poll" | FnWake -> "wake" | FnRegister -> "register"
let call_s = function
  | FnSend -> "send" | FnDec -> "decrement_senders" | FnMrd -> "mark_receiver_dropped" | FnTryRecv -> "try_recv"
  | FnPollRecv -> "poll_recv" | FnSenderCloseInt | FnRecvCloseInt -> "close_internal" | FnWake -> "wake"
  | FnRegister -> "register" | f -> fn_s f
let svar_s = function
  | SvState -> "state" | SvRd -> "receiver_dropped" | SvCnt -> "sender_count" | SvSlot -> "value_slot"
  | SvClosed -> "closed" | SvClosedFlag -> "closed_flag" | SvNone -> "-"
let row_s (((v, k), a), b) =
  let os = function Some x -> ord_s x | None -> "-" in
  match k with
  | KCall f -> "call." ^ call_s f
  | KLockM -> svar_s v ^ ".lock.-"
  | KLoad -> svar_s v ^ ".load." ^ os a
  | KStore -> svar_s v ^ ".store." ^ os a
  | KSwap -> svar_s v ^ ".swap." ^ os a
  | KFsub -> svar_s v ^ ".fsub." ^ os a
  | KCas -> svar_s v ^ ".cas." ^ os a ^ "/" ^ os b

let skel (cfgs : string) (f : string) : string =
  match List.filter (fun (g, _) -> fn_s g = f) (skeleton (cfg_of cfgs)) with
  | (_, rows) :: _ -> "skel " ^ f ^ " :: " ^ String.concat " ; " (List.map row_s rows)
  | [] -> "skel " ^ f ^ " :: <not-modelled>"

let run (toks : string list) : string =
  match toks with
  | "K" :: cfgs :: f :: _ -> skel cfgs f
  | "S" :: rest -> String.concat " " rest      (* monitor-only search: nothing to replay, the verdict is echoed *)
  | "oneshot" :: cfgs :: _ ->
      (match split_on "||" toks with
       | scen :: body :: rest ->
           let parts = split_on "|" scen in
           let threads = List.filter_map (function [] -> None | tag :: ops -> Some (tag, ops)) (List.tl parts) in
           let (res, evtoks) = match split_on ";;" body with
             | [[r]; e] -> (field "res=" r, e)
             | [[r]] -> (field "res=" r, [])
             | _ -> failwith "bad trace body" in
           let evs = List.filter_map (function [] -> None | l -> Some (parse_event l)) (split_on ";" evtoks) in
           let tail = match rest with [] -> "" | l -> String.concat "" (List.map (fun t -> " || " ^ String.concat " " t) l) in
           run_case cfgs threads res evs tail
       | _ -> failwith "case must be <scenario> || <trace>")
  | _ -> failwith "bad case"

let () = main run
