(* eng_roller.ml — line driver for the rolling-file model (coq/Log/Roller.v).
   engine exe: modelrun_roller
   case:   <gran> <maxsize|-> <retained|-> <maxuncompressed|-> <prefix> <fsuffix|_> <csuffix|_> <p0> <off0> <foreign|->
           foreign = comma list of <kind>:<period>:<seq> (kind t|x|d: sibling-appender files) or u (unrelated file),
           pre-created before the appender starts; file i holds the marker record (900+i)/5
           ( w <period> <off> <id> <len> | r <period> <off> | f )*
   output: "<res> <listing>" after the start, after every op and after the final drop, joined by " | ";
           listing = files sorted by name token: A=<recs> R<p>.<s>=<recs> Z<p>.<s>=<recs> F<i>=<recs>; rec = id/len.
   `off` (position of the instant inside its period) and the name parts are used by the real driver only. *)
open Model_roller
open Conv_roller

let n s = n_of_int (int_of_string s)
let opt s = if s = "-" then None else Some (n s)

let show_recs rs =
  String.concat "," (List.map (fun (i, l) -> string_of_int (int_of_n i) ^ "/" ^ string_of_int (int_of_n l)) rs)

let listing st =
  let ents = List.map (fun (nm, data) ->
      match nm with
      | Active -> ((0, 0, 0, 0), "A=" ^ show_recs data)
      | Rolled (p, s, z) ->
          let p = int_of_n p and s = int_of_n s in
          ((1, p, s, (if z then 1 else 0)), (if z then "Z" else "R") ^ string_of_int p ^ "." ^ string_of_int s ^ "=" ^ show_recs data)
      | Foreign i -> let i = int_of_n i in ((3, i, 0, 0), "F" ^ string_of_int i ^ "=" ^ show_recs data))
      (dir_of st) in
  String.concat " " (List.map snd (List.sort compare ents))

let rec parse_ops = function
  | [] -> []
  | "w" :: p :: _ :: id :: len :: r -> Write (n p, (n id, n len)) :: parse_ops r
  | "r" :: p :: _ :: r -> Restart (n p) :: parse_ops r
  | "f" :: r -> Flush :: parse_ops r
  | t :: _ -> failwith ("bad op token " ^ t)

let run (toks : string list) : string =
  match toks with
  | gran :: ms :: mr :: mu :: _ :: _ :: _ :: p0 :: _ :: fr :: rest ->
      let fs = if fr = "-" then [] else
          List.mapi (fun i _ -> (n_of_int i, [ (n_of_int (900 + i), n_of_int 5) ])) (String.split_on_char ',' fr) in
      let pol = { p_never = (gran = "never"); p_max_size = opt ms; p_max_retained = opt mr; p_compression = opt mu } in
      let st0 = start pol fs (n p0) in
      let outs = ref [ "ok " ^ listing st0 ] in
      let st = List.fold_left (fun st o ->
          let st' = step pol st o in
          outs := ("ok " ^ listing st') :: !outs; st') st0 (parse_ops rest) in
      outs := ("end " ^ listing (flush st)) :: !outs;
      String.concat " | " (List.rev !outs)
  | _ -> failwith "bad roller case header"

let () = main run
