(* eng_oneshot.ml — line driver for the K2 oneshot model (coq/Chan/OneshotOps.v).
   engine exe: modelrun_oneshot
   case:   <cfg> <op>*      cfg = one digit: fix_taken_wake (0 = the code as it is)
   ops:    sd H | cs H | cl H | ds H | os H | tr | cr | dr | or | mk F | pr F W | xr F
   output: one group per op and per implicit teardown op, joined by " ; " *)
open Model_oneshot
open Conv_oneshot

let ni s = nat_of_int (int_of_string s)
let i x = string_of_int (int_of_nat x)
let b x = if x then "1" else "0"

let rec parse = function
  | [] -> []
  | "sd" :: h :: r -> OSend (ni h) :: parse r
  | "cs" :: h :: r -> OCloseS (ni h) :: parse r
  | "cl" :: h :: r -> OClone (ni h) :: parse r
  | "ds" :: h :: r -> ODropS (ni h) :: parse r
  | "os" :: h :: r -> OObsSnd (ni h) :: parse r
  | "tr" :: r -> OTryRecv :: parse r
  | "cr" :: r -> OCloseR :: parse r
  | "dr" :: r -> ODropR :: parse r
  | "or" :: r -> OObsRcv :: parse r
  | "mk" :: f :: r -> OMkRecv (ni f) :: parse r
  | "pr" :: f :: w :: r -> OPoll (ni f, ni w) :: parse r
  | "xr" :: f :: r -> ODropFut (ni f) :: parse r
  | t :: _ -> failwith ("bad op token " ^ t)

let show_res = function
  | OOk -> "ok"
  | OVal v -> "v " ^ i v
  | OClosedV v -> "closed " ^ i v
  | OSentV v -> "sent " ^ i v
  | OEmptyR -> "empty"
  | ODisc -> "disc"
  | OPending -> "pending"
  | OCloseErr -> "closeerr"
  | OObsS (c, s) -> "obs " ^ b c ^ " " ^ b s
  | OObsR c -> "obs " ^ b c
  | OGone -> "gone"
  | OBusy -> "busy"
  | ONoFut -> "nofut"

let show_out (r, evs) =
  let ws = List.filter_map (function OWake w -> Some (i w) | _ -> None) evs in
  let ds = List.filter_map (function ODrop v -> Some (i v) | _ -> None) evs in
  show_res r
  ^ (if ws = [] then "" else " w:" ^ String.concat "," ws)
  ^ (if ds = [] then "" else " d:" ^ String.concat "," ds)

let run (toks : string list) : string =
  match toks with
  | cf :: rest ->
      let cfg = { fix_taken_wake = cf.[0] = '1' } in
      let outs = orun_case cfg (parse rest) in
      String.concat " ; " (List.map show_out outs)
  | _ -> failwith "bad oneshot case"

let () = main run
