//! Broadcast SPMC flavour (`spmc` = sync handles by default, `spmca` = async handles; `PA:`/`CA:`/`PS:`/`CS:`
//! labels mix both kinds on one channel): fibre::spmc::bounded over a Clone payload (u64, no drop accounting).
//!
//!   spmc <cap> <runs> <seed> | P: s s ts s | C: r r D | CA: r dc | C: tr rt D
//!
//! exactly one producer thread; every consumer handle is created (clone of the first) BEFORE the threads
//! start, i.e. before anything is sent, so every consumer's view starts at the first sent value.
//! producer ops: s ts y, async also sc          consumer ops: r tr rt D y, async also rc rp;
//!   dc = drop this consumer handle now (the rest of the thread's ops is skipped)
//!   cl = close() it (later receives must fail)
//! monitors (C07): every consumer's received sequence is a prefix of the sequence of accepted values
//! (C07:dup / C07:gap / C07:order), the whole sequence if it drained to Disconnected (C07:gap, C04:early-disc),
//! no value after Disconnected / after close, deadlock (C05:deadlock; C07:backpressure-not-released when
//! the producer is among the parked threads and a consumer handle had been dropped or closed;
//! C04:no-disc + C07:no-disc when a consumer is stuck although the producer thread finished).
use crate::common::*;
use fibre::spmc::{BoundedAsyncReceiver, BoundedAsyncSender, BoundedSyncReceiver, BoundedSyncSender};
use sched::{run, Outcome, Policy};
use std::sync::atomic::Ordering;
use std::sync::{Arc, Mutex};
use std::task::Poll;
use std::time::Duration;

enum Tx {
  S(BoundedSyncSender<u64>),
  A(BoundedAsyncSender<u64>),
}
enum Rx {
  S(BoundedSyncReceiver<u64>),
  A(BoundedAsyncReceiver<u64>),
}

fn try_send_res(id: u64, r: Result<(), fibre::TrySendError<u64>>) -> Res {
  match r {
    Ok(()) => Res::SendOk(id),
    Err(fibre::TrySendError::Full(_)) => Res::SendFull(id),
    Err(_) => Res::SendClosed(id),
  }
}
fn try_recv_res(r: Result<u64, fibre::TryRecvError>) -> Res {
  match r {
    Ok(v) => Res::Val(v),
    Err(fibre::TryRecvError::Empty) => Res::Empty,
    Err(fibre::TryRecvError::Disconnected) => Res::Disc,
  }
}
fn recv_res<E>(r: Result<u64, E>) -> Res {
  match r {
    Ok(v) => Res::Val(v),
    Err(_) => Res::Disc,
  }
}

impl Tx {
  fn send(&mut self, id: u64) -> Res {
    let r = match self {
      Tx::S(t) => t.send(id),
      Tx::A(t) => bo(t.send(id)),
    };
    if r.is_ok() { Res::SendOk(id) } else { Res::SendClosedDropped(id) }
  }
  fn try_send(&mut self, id: u64) -> Res {
    match self {
      Tx::S(t) => try_send_res(id, t.try_send(id)),
      Tx::A(t) => try_send_res(id, t.try_send(id)),
    }
  }
  fn send_cancel(&mut self, id: u64) -> Res {
    match self {
      Tx::S(_) => panic!("op sc needs an async handle"),
      Tx::A(t) => {
        let mut fut = std::pin::pin!(t.send(id));
        match poll_once(fut.as_mut()) {
          Poll::Ready(Ok(())) => Res::SendOk(id),
          Poll::Ready(Err(_)) => Res::SendClosedDropped(id),
          Poll::Pending => {
            sched::yield_point();
            Res::SendCancelled(id)
          }
        }
      }
    }
  }
}

impl Tx {
  fn send_woken_drop(&mut self, id: u64) -> Res {
    match self {
      Tx::S(_) => panic!("op sw needs an async handle"),
      Tx::A(t) => {
        let mut fut = std::pin::pin!(t.send(id));
        match poll_wait_woken(fut.as_mut()) {
          Some(Ok(())) => Res::SendOk(id),
          Some(Err(_)) => Res::SendClosedDropped(id),
          None => Res::SendCancelled(id),
        }
      }
    }
  }
}

impl Rx {
  fn recv(&mut self) -> Res {
    match self {
      Rx::S(r) => recv_res(r.recv()),
      Rx::A(r) => recv_res(bo(r.recv())),
    }
  }
  fn try_recv(&mut self) -> Res {
    match self {
      Rx::S(r) => try_recv_res(r.try_recv()),
      Rx::A(r) => try_recv_res(r.try_recv()),
    }
  }
  fn recv_timeout(&mut self) -> Res {
    match self {
      Rx::S(r) => match r.recv_timeout(Duration::from_micros(20)) {
        Ok(v) => Res::Val(v),
        Err(fibre::RecvErrorTimeout::Timeout) => Res::Timeout,
        Err(fibre::RecvErrorTimeout::Disconnected) => Res::Disc,
      },
      Rx::A(r) => {
        let mut fut = std::pin::pin!(r.recv());
        match poll_twice(fut.as_mut()) {
          Poll::Ready(r) => recv_res(r),
          Poll::Pending => Res::Timeout,
        }
      }
    }
  }
  fn recv_cancel(&mut self) -> Res {
    match self {
      Rx::S(_) => panic!("op rc needs an async handle"),
      Rx::A(r) => {
        let mut fut = std::pin::pin!(r.recv());
        match poll_once(fut.as_mut()) {
          Poll::Ready(r) => recv_res(r),
          Poll::Pending => {
            sched::yield_point();
            Res::Cancelled
          }
        }
      }
    }
  }
  fn recv_woken_drop(&mut self) -> Res {
    match self {
      Rx::S(_) => panic!("op rw needs an async handle"),
      Rx::A(r) => {
        let mut fut = std::pin::pin!(r.recv());
        match poll_wait_woken(fut.as_mut()) {
          Some(r) => recv_res(r),
          None => Res::Cancelled,
        }
      }
    }
  }
  fn recv_repoll(&mut self) -> Res {
    match self {
      Rx::S(_) => panic!("op rp needs an async handle"),
      Rx::A(r) => {
        let mut fut = std::pin::pin!(r.recv());
        match poll_once(fut.as_mut()) {
          Poll::Ready(r) => recv_res(r),
          Poll::Pending => recv_res(bo(fut)),
        }
      }
    }
  }
  fn close(&mut self) {
    match self {
      Rx::S(r) => {
        let _ = r.close();
      }
      Rx::A(r) => {
        let _ = r.close();
      }
    }
  }
}

pub fn run_once(sc: &Scenario, policy: Policy, record: bool) -> OneRun {
  reset_run();
  let np = sc.threads.iter().filter(|t| t.producer).count();
  assert!(np <= 1, "spmc has a single producer");
  let (tx0, rx0) = fibre::spmc::bounded::<u64>(sc.cap.max(1));
  let nc = sc.threads.len() - np;
  let mut rxs: Vec<BoundedSyncReceiver<u64>> = Vec::new();
  for _ in 1..nc {
    rxs.push(rx0.clone());
  }
  if nc > 0 {
    rxs.push(rx0);
  } else {
    drop(rx0);
  }
  let mut tx0 = Some(tx0);
  if np == 0 {
    tx0 = None;
  }
  let results: Arc<Mutex<Vec<Vec<Ev>>>> = Arc::new(Mutex::new(vec![Vec::new(); sc.threads.len()]));
  let mut bodies: Vec<Box<dyn FnOnce() + Send>> = Vec::new();
  for (ti, th) in sc.threads.iter().enumerate() {
    let ops = th.ops.clone();
    let results = results.clone();
    if th.producer {
      let t = tx0.take().unwrap();
      let mut tx = if th.mode == Mode::Async { Tx::A(t.to_async()) } else { Tx::S(t) };
      bodies.push(Box::new(move || {
        enter_thread(ti);
        let mut seq = 100u64;
        let mut out = Vec::new();
        for (oi, op) in ops.iter().enumerate() {
          set_op(oi);
          match op.as_str() {
            "s" => {
              seq += 1;
              stamp(&mut out, || tx.send(seq));
            }
            "ts" => {
              seq += 1;
              stamp(&mut out, || tx.try_send(seq));
            }
            "sc" => {
              seq += 1;
              stamp(&mut out, || tx.send_cancel(seq));
            }
            "sw" => {
              seq += 1;
              stamp(&mut out, || tx.send_woken_drop(seq));
            }
            "y" => std::thread::yield_now(),
            o => panic!("bad producer op {o}"),
          }
          results.lock().unwrap()[ti] = out.clone();
        }
        drop(tx);
        done();
      }));
    } else {
      let r = rxs.pop().unwrap();
      let rx = if th.mode == Mode::Async { Rx::A(r.to_async()) } else { Rx::S(r) };
      bodies.push(Box::new(move || {
        enter_thread(ti);
        let mut rx = Some(rx);
        let mut out = Vec::new();
        for (oi, op) in ops.iter().enumerate() {
          set_op(oi);
          let Some(h) = rx.as_mut() else { break };
          match op.as_str() {
            "r" => stamp(&mut out, || h.recv()),
            "tr" => stamp(&mut out, || h.try_recv()),
            "rt" => stamp(&mut out, || h.recv_timeout()),
            "rc" => stamp(&mut out, || h.recv_cancel()),
            "rp" => stamp(&mut out, || h.recv_repoll()),
            "rw" => stamp(&mut out, || h.recv_woken_drop()),
            "D" => loop {
              stamp(&mut out, || h.recv());
              results.lock().unwrap()[ti] = out.clone();
              if out.last().map(|e| e.res == Res::Disc).unwrap_or(false) {
                break;
              }
            },
            "cl" => {
              DROPPED_RX.store(true, Ordering::SeqCst);
              stamp(&mut out, || {
                h.close();
                Res::RxClosed
              });
            }
            "dc" => {
              DROPPED_RX.store(true, Ordering::SeqCst);
              let taken = rx.take();
              stamp(&mut out, || {
                drop(taken);
                Res::RxDropped
              });
            }
            "y" => std::thread::yield_now(),
            o => panic!("bad consumer op {o}"),
          }
          results.lock().unwrap()[ti] = out.clone();
        }
        if rx.is_some() {
          DROPPED_RX.store(true, Ordering::SeqCst);
        }
        drop(rx);
        done();
      }));
    }
  }
  let rr = run(policy, 200_000, record, bodies);
  let results = results.lock().unwrap().clone();
  finish_run(sc.threads.len(), rr, results)
}

pub fn judge(sc: &Scenario, r: &OneRun) -> Option<(String, String)> {
  if r.outcome != Outcome::Completed {
    return stuck_clauses(sc, r, Some("C07"));
  }
  // the sequence of accepted values, in send order (single producer thread)
  let mut sent: Vec<u64> = Vec::new();
  let mut maybe: Vec<u64> = Vec::new();
  for (ti, th) in sc.threads.iter().enumerate() {
    if th.producer {
      for ev in &r.results[ti] {
        match ev.res {
          Res::SendOk(id) => sent.push(id),
          Res::SendCancelled(id) => maybe.push(id),
          _ => {}
        }
      }
    }
  }
  for (ti, th) in sc.threads.iter().enumerate() {
    if th.producer {
      continue;
    }
    let mut got: Vec<u64> = Vec::new();
    let mut seen_disc = false;
    let mut closed = false;
    let mut gone = false;
    for ev in &r.results[ti] {
      match ev.res {
        Res::Val(id) => {
          if seen_disc {
            return Some(("C04:value-after-disc,C07:value-after-disc".into(), format!("consumer thread {ti} received {id} after Disconnected")));
          }
          if closed {
            return Some(("C04:closed-rx-receives,C07:closed-rx-receives".into(), format!("consumer thread {ti} received {id} after its close()")));
          }
          got.push(id);
        }
        Res::Disc => {
          if !closed {
            seen_disc = true;
          }
        }
        Res::RxClosed => closed = true,
        Res::RxDropped => gone = true,
        _ => {}
      }
    }
    let _ = gone;
    // expected: got is a prefix of `sent` (a cancelled send future may or may not have published
    // its value: such ids are skipped in `sent`'s favour when they show up)
    let mut si = 0usize;
    for (k, id) in got.iter().enumerate() {
      if got[..k].contains(id) {
        return Some(("C07:dup".into(), format!("consumer thread {ti} received {id} twice: got={got:?} sent={sent:?}")));
      }
      if maybe.contains(id) {
        continue;
      }
      if si < sent.len() && sent[si] == *id {
        si += 1;
        continue;
      }
      if let Some(pos) = sent.iter().position(|s| s == id) {
        if pos > si {
          return Some(("C07:gap".into(), format!("consumer thread {ti} received {id} but never {} (sent before it): got={got:?} sent={sent:?}", sent[si])));
        }
        return Some(("C07:order".into(), format!("consumer thread {ti} received {id} out of send order: got={got:?} sent={sent:?}")));
      }
      return Some(("C07:phantom,C01:phantom".into(), format!("consumer thread {ti} received {id} which no send reported as accepted: got={got:?} sent={sent:?}")));
    }
    if seen_disc && si < sent.len() {
      return Some((
        "C07:gap,C04:early-disc".into(),
        format!("consumer thread {ti} observed Disconnected after {si} of {} accepted values (its view was not drained): got={got:?} sent={sent:?}", sent.len()),
      ));
    }
  }
  None
}
