//! Shared pieces of the scenario runner (scen.rs): scenario syntax, per-thread progress flags that the
//! deadlock monitors read, the logical clock, the counting waker and the scheduler-aware block_on.
use std::cell::Cell;
use std::future::Future;
use std::pin::Pin;
use std::sync::atomic::{AtomicBool, AtomicU64, AtomicUsize, Ordering};
use std::sync::Arc;
use std::task::{Context, Poll, Wake, Waker};

pub const MAXT: usize = 16;
/// thread is inside `bo` (block_on of an async operation)
pub static IN_BO: [AtomicBool; MAXT] = [const { AtomicBool::new(false) }; MAXT];
/// thread body ran to its end (all its handles dropped)
pub static DONE: [AtomicBool; MAXT] = [const { AtomicBool::new(false) }; MAXT];
/// index + 1 of the op the thread is executing (0: not started)
pub static CUR_OP: [AtomicUsize; MAXT] = [const { AtomicUsize::new(0) }; MAXT];
/// the thread dropped / closed a consumer handle during this run
pub static DROPPED_RX: AtomicBool = AtomicBool::new(false);
/// logical clock: ticks in harness code only (threads run one at a time, so intervals
/// [t0, t1] of two operations are disjoint iff one operation completed before the other began)
pub static CLOCK: AtomicU64 = AtomicU64::new(1);

thread_local! {
  pub static TID: Cell<usize> = const { Cell::new(0) };
}

pub fn reset_run() {
  for i in 0..MAXT {
    IN_BO[i].store(false, Ordering::SeqCst);
    DONE[i].store(false, Ordering::SeqCst);
    CUR_OP[i].store(0, Ordering::SeqCst);
  }
  DROPPED_RX.store(false, Ordering::SeqCst);
  CLOCK.store(1, Ordering::SeqCst);
}

pub fn tick() -> u64 {
  CLOCK.fetch_add(1, Ordering::SeqCst)
}

pub fn enter_thread(tid: usize) {
  TID.with(|t| t.set(tid));
}

pub fn set_op(i: usize) {
  CUR_OP[TID.with(|t| t.get())].store(i + 1, Ordering::SeqCst);
}

pub fn done() {
  DONE[TID.with(|t| t.get())].store(true, Ordering::SeqCst);
}

/// block_on through the scheduler; the thread is flagged while it is inside, so that a deadlock with
/// this thread parked is attributed to a missing waker invocation (C06)
pub fn bo<F: Future>(f: F) -> F::Output {
  let t = TID.with(|t| t.get());
  IN_BO[t].store(true, Ordering::SeqCst);
  let v = sched::block_on(f);
  IN_BO[t].store(false, Ordering::SeqCst);
  v
}

/// poll once; if Pending wait (parked, flagged like block_on) until the future's waker is invoked;
/// None = woken but not polled again (the caller drops the future in that state)
pub fn poll_wait_woken<F: Future>(f: Pin<&mut F>) -> Option<F::Output> {
  let t = TID.with(|t| t.get());
  IN_BO[t].store(true, Ordering::SeqCst);
  let v = sched::poll_then_wait_woken(f);
  IN_BO[t].store(false, Ordering::SeqCst);
  v
}

pub struct CountW(pub AtomicUsize);
impl Wake for CountW {
  fn wake(self: Arc<Self>) {
    self.0.fetch_add(1, Ordering::SeqCst);
  }
}

/// one poll with a fresh counting waker (nobody parks on it: a wake only counts)
pub fn poll_once<F: Future>(f: Pin<&mut F>) -> Poll<F::Output> {
  let w = Arc::new(CountW(AtomicUsize::new(0)));
  let waker = Waker::from(w);
  let mut cx = Context::from_waker(&waker);
  f.poll(&mut cx)
}

/// two polls with the SAME counting waker and a scheduling point in between (an async "timeout")
pub fn poll_twice<F: Future>(mut f: Pin<&mut F>) -> Poll<F::Output> {
  let w = Arc::new(CountW(AtomicUsize::new(0)));
  let waker = Waker::from(w);
  let mut cx = Context::from_waker(&waker);
  if let Poll::Ready(v) = f.as_mut().poll(&mut cx) {
    return Poll::Ready(v);
  }
  sched::yield_point();
  f.poll(&mut cx)
}

#[derive(Debug, Clone, PartialEq)]
pub enum Res {
  SendOk(u64),
  SendFull(u64),
  SendClosed(u64),
  /// blocking send failed: SendError carries no value, the channel must drop it (once)
  SendClosedDropped(u64),
  /// a send future was dropped while Pending: the value is either destroyed with the future or
  /// (if a receiver had already been handed it) delivered
  SendCancelled(u64),
  Val(u64),
  Empty,
  Disc,
  Timeout,
  /// a receive future was dropped while Pending
  Cancelled,
  /// this consumer handle was dropped (`dc`) / closed (`cl`) here
  RxDropped,
  RxClosed,
  // ---- topic
  /// publish(topic, id) -> ok?
  Pub(u64, u64, bool),
  TVal(u64, u64),
  Sub(u64),
  Uns(u64),
  /// the thread continues on a clone of its handle (old handle dropped / kept)
  Clone(bool),
  /// the thread's sender handle is dropped here
  TxDrop,
}

#[derive(Debug, Clone)]
pub struct Ev {
  pub res: Res,
  pub t0: u64,
  pub t1: u64,
}

pub fn stamp(out: &mut Vec<Ev>, f: impl FnOnce() -> Res) {
  let t0 = tick();
  let res = f();
  let t1 = tick();
  out.push(Ev { res, t0, t1 });
}

#[derive(Clone, Copy, PartialEq, Eq, Debug)]
pub enum Mode {
  Sync,
  Async,
}

#[derive(Clone)]
pub struct ThreadSpec {
  pub producer: bool,
  pub mode: Mode,
  pub ops: Vec<String>,
}

pub struct Scenario {
  pub flavour: String,
  /// flavour without the async-default suffix
  pub base: String,
  pub cap: usize,
  pub runs: usize,
  pub seed: u64,
  pub trace: bool,
  pub force: Option<bool>,
  pub show_results: bool,
  pub oneline: bool,
  pub threads: Vec<ThreadSpec>,
}

pub const BASES: [&str; 10] = ["spsc", "mpscb", "mpscu", "mpmcb", "mpmcu", "spscrv", "mpscrv", "mpmcrv", "spmc", "topic"];

/// `<flavour> <cap> <runs> <seed> [trace] [pct|rand] [results] [oneline] | P: ops | CA: ops ...`
/// thread label: P.. producer, C.. consumer; a second letter A / S forces the async / sync handle,
/// otherwise the flavour decides (`<base>a` = async handles).
pub fn parse(line: &str) -> Result<Scenario, String> {
  let parts: Vec<&str> = line.split('|').collect();
  let head: Vec<&str> = parts[0].split_whitespace().collect();
  if head.len() < 4 {
    return Err("header needs: flavour cap runs seed".into());
  }
  let flavour = head[0].to_string();
  let (base, dflt) = if BASES.contains(&flavour.as_str()) {
    (flavour.clone(), Mode::Sync)
  } else if flavour.ends_with('a') && BASES.contains(&&flavour[..flavour.len() - 1]) {
    (flavour[..flavour.len() - 1].to_string(), Mode::Async)
  } else {
    return Err(format!("unknown flavour {flavour}"));
  };
  let mut threads = Vec::new();
  for p in &parts[1..] {
    let toks: Vec<&str> = p.split_whitespace().collect();
    if toks.is_empty() {
      continue;
    }
    let label = toks[0].trim_end_matches(':');
    let producer = label.starts_with('P');
    if !producer && !label.starts_with('C') {
      return Err(format!("bad thread label {label}"));
    }
    let mode = match label.chars().nth(1) {
      Some('A') => Mode::Async,
      Some('S') => Mode::Sync,
      None => dflt,
      Some(c) => return Err(format!("bad thread label suffix {c}")),
    };
    threads.push(ThreadSpec { producer, mode, ops: toks[1..].iter().map(|s| s.to_string()).collect() });
  }
  if threads.len() > MAXT {
    return Err("too many threads".into());
  }
  for t in &threads {
    for o in &t.ops {
      if !op_ok(&base, t.producer, t.mode, o) {
        return Err(format!("op {o} is not valid for a {} {} thread of {base}", if t.mode == Mode::Async { "async" } else { "sync" }, if t.producer { "producer" } else { "consumer" }));
      }
    }
  }
  let np = threads.iter().filter(|t| t.producer).count();
  let nc = threads.len() - np;
  let (maxp, maxc) = match base.as_str() {
    "spsc" | "spscrv" => (1, 1),
    "mpscb" | "mpscu" | "mpscrv" => (MAXT, 1),
    "spmc" => (1, MAXT),
    _ => (MAXT, MAXT),
  };
  if np > maxp || nc > maxc {
    return Err(format!("{base} allows at most {maxp} producer / {maxc} consumer threads"));
  }
  let num = |s: &str| s.parse::<u64>().map_err(|_| format!("bad number {s}"));
  let rest = &head[4..];
  Ok(Scenario {
    flavour,
    base,
    cap: num(head[1])? as usize,
    runs: num(head[2])? as usize,
    seed: num(head[3])?,
    trace: rest.first() == Some(&"trace"),
    force: if rest.contains(&"pct") { Some(true) } else if rest.contains(&"rand") { Some(false) } else { None },
    show_results: rest.contains(&"results"),
    oneline: rest.contains(&"oneline"),
    threads,
  })
}

fn op_ok(base: &str, producer: bool, mode: Mode, op: &str) -> bool {
  let asy = mode == Mode::Async;
  let topic_num = |p: &str| op.len() > p.len() && op.starts_with(p) && op[p.len()..].chars().all(|c| c.is_ascii_digit());
  match (base, producer) {
    ("topic", true) => op == "y" || topic_num("p"),
    ("topic", false) => {
      matches!(op, "r" | "tr" | "rt" | "D" | "y" | "cl" | "cln" | "clk") || (asy && matches!(op, "rc" | "rp" | "rw")) || topic_num("sub") || topic_num("uns")
    }
    (_, true) => matches!(op, "s" | "ts" | "y") || (asy && matches!(op, "sc" | "sw")),
    ("spmc", false) => matches!(op, "r" | "tr" | "rt" | "D" | "y" | "dc" | "cl") || (asy && matches!(op, "rc" | "rp" | "rw")),
    (_, false) => matches!(op, "r" | "tr" | "rt" | "D" | "y") || (asy && matches!(op, "rc" | "rp" | "rw")) || (base == "mpmcb" && op == "K"),
  }
}

pub struct OneRun {
  pub outcome: sched::Outcome,
  pub results: Vec<Vec<Ev>>,
  pub steps: usize,
  pub events: usize,
  pub parks: usize,
  pub choices: Vec<usize>,
  pub trace: Vec<sched::Rec>,
  /// snapshots taken right after the run (before the next run resets the flags)
  pub in_bo: Vec<bool>,
  pub done: Vec<bool>,
  pub cur_op: Vec<usize>,
  pub dropped_rx: bool,
  /// Some(probe of the first kept-alive receiver) when a thread executed op `K`
  pub kept_probe: Option<Option<(usize, usize)>>,
}

pub fn finish_run(n: usize, rr: sched::RunResult, results: Vec<Vec<Ev>>) -> OneRun {
  OneRun {
    outcome: rr.outcome,
    results,
    steps: rr.steps,
    events: rr.trace.len(),
    parks: rr.parks,
    choices: rr.choices,
    trace: rr.trace,
    in_bo: (0..n).map(|i| IN_BO[i].load(Ordering::SeqCst)).collect(),
    done: (0..n).map(|i| DONE[i].load(Ordering::SeqCst)).collect(),
    cur_op: (0..n).map(|i| CUR_OP[i].load(Ordering::SeqCst)).collect(),
    dropped_rx: DROPPED_RX.load(Ordering::SeqCst),
    kept_probe: None,
  }
}

pub const RECV_OPS: [&str; 8] = ["r", "rt", "D", "rc", "rp", "rw", "tr", "n"];

/// some future of this run was dropped while Pending (sc / rc / sw / rw / async rt)
pub fn any_cancelled(r: &OneRun) -> bool {
  r.results.iter().any(|v| v.iter().any(|e| matches!(e.res, Res::Cancelled | Res::SendCancelled(_))))
}

/// Clauses for a run that did not complete.  `fam`: extra clause prefix of the flavour family
/// (`C07` for spmc, `C08` for topic, none for point-to-point channels).
pub fn stuck_clauses(sc: &Scenario, r: &OneRun, fam: Option<&str>) -> Option<(String, String)> {
  use sched::Outcome;
  let n = sc.threads.len();
  let all_producers_done = (0..n).filter(|&i| sc.threads[i].producer).all(|i| r.done[i]);
  let in_recv = |i: usize| -> bool {
    !sc.threads[i].producer
      && !r.done[i]
      && r.cur_op[i] > 0
      && sc.threads[i].ops.get(r.cur_op[i] - 1).map(|o| RECV_OPS.contains(&o.as_str())).unwrap_or(false)
  };
  let describe = |i: usize| -> String {
    let op = if r.cur_op[i] > 0 { sc.threads[i].ops.get(r.cur_op[i] - 1).cloned().unwrap_or_default() } else { "-".into() };
    format!("t{i}({}{} op#{} `{}`{})", if sc.threads[i].producer { "P" } else { "C" }, if sc.threads[i].mode == Mode::Async { "A" } else { "" }, r.cur_op[i], op, if r.in_bo[i] { " in block_on" } else { "" })
  };
  match &r.outcome {
    Outcome::Completed => None,
    Outcome::Panic(m) => Some(("C01:panic".into(), m.clone())),
    Outcome::Deadlock(parked) => {
      let mut cl = vec!["C05:deadlock".to_string()];
      if parked.iter().any(|&i| i < n && r.in_bo[i]) {
        cl.push("C06:missed-wake".into());
      }
      if any_cancelled(r) {
        // a thread is stuck after a pending future was dropped: the drop may have swallowed the
        // wake-up the stuck thread needed (C06, also for a sync thread next to async ones)
        cl.push("C06:cancel-swallowed-wake".into());
      }
      if all_producers_done && parked.iter().any(|&i| i < n && in_recv(i)) {
        cl.push("C04:no-disc".into());
        if let Some(f) = fam {
          cl.push(format!("{f}:no-disc"));
        }
      }
      if fam == Some("C07") && r.dropped_rx && parked.iter().any(|&i| i < n && sc.threads[i].producer) {
        cl.push("C07:backpressure-not-released".into());
      }
      let who: Vec<String> = parked.iter().filter(|&&i| i < n).map(|&i| describe(i)).collect();
      Some((cl.join(","), format!("threads {parked:?} parked forever, nobody runnable: {}; all producers finished={all_producers_done}; results={}", who.join(" "), fmt_results(&r.results))))
    }
    Outcome::StepLimit => {
      let mut cl = vec!["C05:step-limit".to_string()];
      let stuck: Vec<usize> = (0..n).filter(|&i| !r.done[i]).collect();
      if all_producers_done && stuck.iter().any(|&i| in_recv(i)) {
        cl.push("C04:no-disc".into());
        if let Some(f) = fam {
          cl.push(format!("{f}:no-disc"));
        }
      }
      let who: Vec<String> = stuck.iter().map(|&i| describe(i)).collect();
      Some((cl.join(","), format!("schedule exceeded the step limit (livelock / unbounded spin / endless timed re-park): unfinished {}; all producers finished={all_producers_done}", who.join(" "))))
    }
  }
}

pub fn fmt_results(rs: &[Vec<Ev>]) -> String {
  let one = |e: &Ev| match &e.res {
    Res::SendOk(i) => format!("ok:{i}"),
    Res::SendFull(i) => format!("full:{i}"),
    Res::SendClosed(i) => format!("closed:{i}"),
    Res::SendClosedDropped(i) => format!("gone:{i}"),
    Res::SendCancelled(i) => format!("cancelled:{i}"),
    Res::Val(i) => format!("val:{i}"),
    Res::Empty => "empty".to_string(),
    Res::Disc => "disc".to_string(),
    Res::Timeout => "timeout".to_string(),
    Res::Cancelled => "cancelled".to_string(),
    Res::RxDropped => "rx-dropped".to_string(),
    Res::RxClosed => "rx-closed".to_string(),
    Res::Pub(t, i, ok) => format!("pub:{t}/{i}:{}", if *ok { "ok" } else { "closed" }),
    Res::TVal(t, i) => format!("val:{t}/{i}"),
    Res::Sub(t) => format!("sub:{t}"),
    Res::Uns(t) => format!("uns:{t}"),
    Res::Clone(dropped_old) => format!("clone:{}", if *dropped_old { "replace" } else { "keep" }),
    Res::TxDrop => "tx-drop".to_string(),
  };
  rs.iter().enumerate().map(|(t, v)| format!("t{t}=[{}]", v.iter().map(one).collect::<Vec<_>>().join(","))).collect::<Vec<_>>().join(" ")
}
