//! Topic pub/sub flavour (`topic` = sync handles by default, `topica` = async): fibre::spmc::topic.
//! Needs hook H2-topic (docs/fixes/hook_H2_topic.diff): without it the topic code blocks through
//! std::thread::park / parking_lot, invisible to the scheduler; `hook_present()` detects that at run time.
//!
//!   topic <mailbox cap> <runs> <seed> | P: p1 p2 p1 | P: p2 | C: sub1 sub2 r tr D | CA: sub1 cln uns1 rt D
//!
//! publisher threads (`P:` TopicSender clone, `PA:` AsyncTopicSender clone): p<k> = publish (k, fresh id), y
//! receiver threads (`C:` TopicReceiver, `CA:` AsyncTopicReceiver; every handle is a clone of the first made
//! before the threads start, with no subscription):
//!   sub<k> uns<k>   subscribe / unsubscribe topic k
//!   cln             continue on a clone of the handle, the old handle is dropped
//!   clk             continue on a clone, the old handle is kept alive until the thread ends
//!   cl              close() the handle
//!   tr              try_recv
//!   rt              sync: recv_timeout(1 h) (the scheduler may fire the timeout: a spurious wake-up for the
//!                   code, the deadline itself is never reached); async: poll, scheduling point, poll, drop
//!   r               recv        D  recv until Disconnected
//!   rc rp           async only, as for the point-to-point flavours
//! monitors (C08), all judged per receiver handle ("epoch": from thread start / clone to the next clone):
//!   C08:phantom             a message nobody published (or whose publish reported Closed)
//!   C08:unsubscribed-topic  a message of topic k although no subscription interval of k on this handle
//!                           overlaps the publish call (logical clock, see common.rs)
//!   C08:dup                 the same message twice on one handle
//!   C08:order               b received after a although publish(b) completed before publish(a) began
//!   C08:lost                mailbox can never be full (cap >= number of publishes), the handle was
//!                           subscribed to k from before publish began until after it completed, the handle
//!                           drained to Disconnected, and yet the message was not received
//!   C08:disc-with-live-sender (+C04:early-disc)  Disconnected before every publisher thread began dropping its handle
//!   C08:disc-before-drained  (+C04:value-after-disc)  a message after Disconnected on the same handle
//!   C08:closed-rx-receives  a message published after close() completed
//!   C08:no-disc (+C04:no-disc, C05:deadlock / C05:step-limit)  a receiver is stuck in a receive although every
//!                           publisher thread finished
use crate::common::*;
use fibre::spmc::topic::{AsyncTopicReceiver, AsyncTopicSender, TopicReceiver, TopicSender};
use sched::{run, Outcome, Policy};
use std::sync::{Arc, Mutex, OnceLock};
use std::task::Poll;
use std::time::Duration;

enum Tx {
  S(TopicSender<u64, u64>),
  A(AsyncTopicSender<u64, u64>),
}
enum Rx {
  S(TopicReceiver<u64, u64>),
  A(AsyncTopicReceiver<u64, u64>),
}

fn tval<E>(r: Result<(u64, u64), E>) -> Res {
  match r {
    Ok((k, v)) => Res::TVal(k, v),
    Err(_) => Res::Disc,
  }
}
fn try_res(r: Result<(u64, u64), fibre::TryRecvError>) -> Res {
  match r {
    Ok((k, v)) => Res::TVal(k, v),
    Err(fibre::TryRecvError::Empty) => Res::Empty,
    Err(fibre::TryRecvError::Disconnected) => Res::Disc,
  }
}

impl Tx {
  fn publish(&self, k: u64, id: u64) -> Res {
    let ok = match self {
      Tx::S(t) => t.send(k, id).is_ok(),
      Tx::A(t) => t.send(k, id).is_ok(),
    };
    Res::Pub(k, id, ok)
  }
}

impl Rx {
  fn sub(&self, k: u64) {
    match self {
      Rx::S(r) => r.subscribe(k),
      Rx::A(r) => r.subscribe(k),
    }
  }
  fn uns(&self, k: u64) {
    match self {
      Rx::S(r) => r.unsubscribe(&k),
      Rx::A(r) => r.unsubscribe(&k),
    }
  }
  fn dup(&self) -> Rx {
    match self {
      Rx::S(r) => Rx::S(r.clone()),
      Rx::A(r) => Rx::A(r.clone()),
    }
  }
  fn close(&self) {
    match self {
      Rx::S(r) => {
        let _ = r.close();
      }
      Rx::A(r) => {
        let _ = r.close();
      }
    }
  }
  fn recv(&self) -> Res {
    match self {
      Rx::S(r) => tval(r.recv()),
      Rx::A(r) => tval(bo(r.recv())),
    }
  }
  fn try_recv(&self) -> Res {
    match self {
      Rx::S(r) => try_res(r.try_recv()),
      Rx::A(r) => try_res(r.try_recv()),
    }
  }
  fn recv_timeout(&self) -> Res {
    match self {
      Rx::S(r) => match r.recv_timeout(Duration::from_secs(3600)) {
        Ok((k, v)) => Res::TVal(k, v),
        Err(fibre::RecvErrorTimeout::Timeout) => Res::Timeout,
        Err(fibre::RecvErrorTimeout::Disconnected) => Res::Disc,
      },
      Rx::A(r) => {
        let mut fut = std::pin::pin!(r.recv());
        match poll_twice(fut.as_mut()) {
          Poll::Ready(r) => tval(r),
          Poll::Pending => Res::Timeout,
        }
      }
    }
  }
  fn recv_cancel(&self) -> Res {
    match self {
      Rx::S(_) => panic!("op rc needs an async handle"),
      Rx::A(r) => {
        let mut fut = std::pin::pin!(r.recv());
        match poll_once(fut.as_mut()) {
          Poll::Ready(r) => tval(r),
          Poll::Pending => {
            sched::yield_point();
            Res::Cancelled
          }
        }
      }
    }
  }
  fn recv_woken_drop(&self) -> Res {
    match self {
      Rx::S(_) => panic!("op rw needs an async handle"),
      Rx::A(r) => {
        let mut fut = std::pin::pin!(r.recv());
        match poll_wait_woken(fut.as_mut()) {
          Some(r) => tval(r),
          None => Res::Cancelled,
        }
      }
    }
  }
  fn recv_repoll(&self) -> Res {
    match self {
      Rx::S(_) => panic!("op rp needs an async handle"),
      Rx::A(r) => {
        let mut fut = std::pin::pin!(r.recv());
        match poll_once(fut.as_mut()) {
          Poll::Ready(r) => tval(r),
          Poll::Pending => tval(bo(fut)),
        }
      }
    }
  }
}

/// true iff the topic code of this build reports its primitive operations to the scheduler
/// (probe: one subscribe / publish / try_recv under the scheduler, then look for an event whose
/// variable or call site lives in spmc/topic/)
pub fn hook_present() -> bool {
  static P: OnceLock<bool> = OnceLock::new();
  *P.get_or_init(|| {
    let body: Box<dyn FnOnce() + Send> = Box::new(|| {
      let (tx, rx) = fibre::spmc::topic::channel::<u64, u64>(2);
      rx.subscribe(1);
      let _ = tx.send(1, 1);
      let _ = rx.try_recv();
      drop(tx);
      let _ = rx.try_recv();
    });
    let rr = run(Policy::Random(1), 10_000, true, vec![body]);
    rr.outcome == Outcome::Completed
      && rr.trace.iter().any(|r| r.ev.at_file.contains("spmc/topic/") || r.ev.var.map(|v| v.file.contains("spmc/topic/")).unwrap_or(false))
  })
}

fn num(op: &str, prefix: &str) -> u64 {
  op[prefix.len()..].parse().unwrap_or_else(|_| panic!("bad op {op}"))
}

pub fn run_once(sc: &Scenario, policy: Policy, record: bool) -> OneRun {
  reset_run();
  let np = sc.threads.iter().filter(|t| t.producer).count();
  let nc = sc.threads.len() - np;
  let (tx0, rx0) = fibre::spmc::topic::channel::<u64, u64>(sc.cap);
  let mut txs: Vec<TopicSender<u64, u64>> = Vec::new();
  for _ in 1..np {
    txs.push(tx0.clone());
  }
  if np > 0 {
    txs.push(tx0);
  } else {
    drop(tx0);
  }
  let mut rxs: Vec<TopicReceiver<u64, u64>> = Vec::new();
  for _ in 1..nc {
    rxs.push(rx0.clone());
  }
  if nc > 0 {
    rxs.push(rx0);
  } else {
    drop(rx0);
  }
  let results: Arc<Mutex<Vec<Vec<Ev>>>> = Arc::new(Mutex::new(vec![Vec::new(); sc.threads.len()]));
  let mut bodies: Vec<Box<dyn FnOnce() + Send>> = Vec::new();
  let mut pi = 0u64;
  for (ti, th) in sc.threads.iter().enumerate() {
    let ops = th.ops.clone();
    let results = results.clone();
    if th.producer {
      let t = txs.pop().unwrap();
      let tx = if th.mode == Mode::Async { Tx::A(t.to_async()) } else { Tx::S(t) };
      let base = (pi + 1) * 100;
      pi += 1;
      bodies.push(Box::new(move || {
        enter_thread(ti);
        let mut seq = 0u64;
        let mut out = Vec::new();
        for (oi, op) in ops.iter().enumerate() {
          set_op(oi);
          if op.starts_with('p') {
            let k = num(op, "p");
            seq += 1;
            stamp(&mut out, || tx.publish(k, base + seq));
          } else if op == "y" {
            std::thread::yield_now();
          } else {
            panic!("bad publisher op {op}");
          }
          results.lock().unwrap()[ti] = out.clone();
        }
        stamp(&mut out, || {
          drop(tx);
          Res::TxDrop
        });
        results.lock().unwrap()[ti] = out;
        done();
      }));
    } else {
      let r = rxs.pop().unwrap();
      let rx = if th.mode == Mode::Async { Rx::A(r.to_async()) } else { Rx::S(r) };
      bodies.push(Box::new(move || {
        enter_thread(ti);
        let mut rx = rx;
        let mut kept: Vec<Rx> = Vec::new();
        let mut out = Vec::new();
        for (oi, op) in ops.iter().enumerate() {
          set_op(oi);
          match op.as_str() {
            "r" => stamp(&mut out, || rx.recv()),
            "tr" => stamp(&mut out, || rx.try_recv()),
            "rt" => stamp(&mut out, || rx.recv_timeout()),
            "rc" => stamp(&mut out, || rx.recv_cancel()),
            "rp" => stamp(&mut out, || rx.recv_repoll()),
            "rw" => stamp(&mut out, || rx.recv_woken_drop()),
            "D" => loop {
              stamp(&mut out, || rx.recv());
              results.lock().unwrap()[ti] = out.clone();
              if out.last().map(|e| e.res == Res::Disc).unwrap_or(false) {
                break;
              }
            },
            "cl" => stamp(&mut out, || {
              rx.close();
              Res::RxClosed
            }),
            "cln" => stamp(&mut out, || {
              let c = rx.dup();
              let old = std::mem::replace(&mut rx, c);
              drop(old);
              Res::Clone(true)
            }),
            "clk" => stamp(&mut out, || {
              let c = rx.dup();
              kept.push(std::mem::replace(&mut rx, c));
              Res::Clone(false)
            }),
            "y" => std::thread::yield_now(),
            o if o.starts_with("sub") => {
              let k = num(o, "sub");
              stamp(&mut out, || {
                rx.sub(k);
                Res::Sub(k)
              });
            }
            o if o.starts_with("uns") => {
              let k = num(o, "uns");
              stamp(&mut out, || {
                rx.uns(k);
                Res::Uns(k)
              });
            }
            o => panic!("bad receiver op {o}"),
          }
          results.lock().unwrap()[ti] = out.clone();
        }
        drop(rx);
        drop(kept);
        done();
      }));
    }
  }
  // a stuck timed receive re-parks for ever (scheduler-fired timeouts): keep the step limit small
  let rr = run(policy, 40_000, record, bodies);
  let results = results.lock().unwrap().clone();
  finish_run(sc.threads.len(), rr, results)
}

struct PubRec {
  topic: u64,
  ok: bool,
  t0: u64,
  t1: u64,
}

pub fn judge(sc: &Scenario, r: &OneRun) -> Option<(String, String)> {
  if r.outcome != Outcome::Completed {
    return stuck_clauses(sc, r, Some("C08"));
  }
  let mut pubs: std::collections::HashMap<u64, PubRec> = Default::default();
  // clock at which each publisher thread began dropping its sender handle
  let mut drop_begin: Vec<u64> = Vec::new();
  for (ti, th) in sc.threads.iter().enumerate() {
    if !th.producer {
      continue;
    }
    for ev in &r.results[ti] {
      match ev.res {
        Res::Pub(k, id, ok) => {
          pubs.insert(id, PubRec { topic: k, ok, t0: ev.t0, t1: ev.t1 });
        }
        Res::TxDrop => drop_begin.push(ev.t0),
        _ => {}
      }
    }
  }
  let never_full = pubs.len() <= sc.cap;
  const INF: u64 = u64::MAX;
  for (ti, th) in sc.threads.iter().enumerate() {
    if th.producer {
      continue;
    }
    // subscription intervals of the current handle: topic -> list of
    // (liberal begin, strict begin, strict end, liberal end)
    //   liberal = [start of the subscribe call, end of the unsubscribe call]  (may receive)
    //   strict  = [end of the subscribe call, start of the unsubscribe call]  (must receive)
    let mut subs: std::collections::HashMap<u64, Vec<(u64, u64, u64, u64)>> = Default::default();
    let mut got: Vec<(u64, u64)> = Vec::new();
    let mut seen_disc = false;
    let mut closed_at: Option<u64> = None;
    let events = &r.results[ti];
    let mut idx = 0usize;
    // an epoch ends at a Clone event or at the end of the thread
    let check_lost = |subs: &std::collections::HashMap<u64, Vec<(u64, u64, u64, u64)>>, got: &Vec<(u64, u64)>| -> Option<(String, String)> {
      if !never_full {
        return None;
      }
      for (id, p) in pubs.iter() {
        if !p.ok {
          continue;
        }
        let must = subs.get(&p.topic).map(|v| v.iter().any(|&(_, sb, se, _)| sb <= p.t0 && p.t1 <= se)).unwrap_or(false);
        if must && !got.iter().any(|&(_, g)| g == *id) {
          return Some((
            "C08:lost".into(),
            format!("receiver thread {ti}: message {}/{id} was published while the handle was subscribed (mailbox cap {} can never be full), the handle drained to Disconnected, but the message was not received: got={got:?}", p.topic, sc.cap),
          ));
        }
      }
      None
    };
    while idx < events.len() {
      let ev = &events[idx];
      idx += 1;
      match ev.res {
        Res::Sub(k) => {
          let v = subs.entry(k).or_default();
          // subscribing twice is a no-op: keep the open interval
          if !v.iter().any(|i| i.3 == INF) {
            v.push((ev.t0, ev.t1, INF, INF));
          }
        }
        Res::Uns(k) => {
          if let Some(v) = subs.get_mut(&k) {
            for i in v.iter_mut() {
              if i.3 == INF {
                i.2 = ev.t0;
                i.3 = ev.t1;
              }
            }
          }
        }
        Res::RxClosed => {
          // close unsubscribes everything
          for v in subs.values_mut() {
            for i in v.iter_mut() {
              if i.3 == INF {
                i.2 = ev.t0;
                i.3 = ev.t1;
              }
            }
          }
          closed_at = Some(ev.t1);
        }
        Res::Clone(_) => {
          // new epoch: a fresh mailbox inheriting the subscriptions that are open now
          let mut inherited: std::collections::HashMap<u64, Vec<(u64, u64, u64, u64)>> = Default::default();
          for (k, v) in subs.iter() {
            if v.iter().any(|i| i.3 == INF) {
              inherited.insert(*k, vec![(ev.t0, ev.t1, INF, INF)]);
            }
          }
          subs = inherited;
          got.clear();
          seen_disc = false;
          // a clone of a closed handle is a closed, dead handle: nothing more to judge on it
        }
        Res::TVal(k, id) => {
          let Some(p) = pubs.get(&id) else {
            return Some(("C08:phantom".into(), format!("receiver thread {ti} received {k}/{id} which nobody published")));
          };
          if p.topic != k || !p.ok {
            return Some(("C08:phantom".into(), format!("receiver thread {ti} received {k}/{id}; published as topic {} with result ok={}", p.topic, p.ok)));
          }
          if seen_disc {
            return Some(("C04:value-after-disc,C08:disc-before-drained".into(), format!("receiver thread {ti} received {k}/{id} after it had observed Disconnected on the same handle (the mailbox was not drained)")));
          }
          if let Some(c) = closed_at {
            if p.t0 > c {
              return Some(("C08:closed-rx-receives".into(), format!("receiver thread {ti} received {k}/{id}, published after its close() had completed")));
            }
          }
          let may = subs.get(&k).map(|v| v.iter().any(|&(lb, _, _, le)| lb <= p.t1 && p.t0 <= le)).unwrap_or(false);
          if !may {
            return Some(("C08:unsubscribed-topic".into(), format!("receiver thread {ti} received {k}/{id} but no subscription of this handle to topic {k} overlaps the publish call")));
          }
          if got.iter().any(|&(_, g)| g == id) {
            return Some(("C08:dup".into(), format!("receiver thread {ti} received {k}/{id} twice on one handle")));
          }
          for &(_, a) in got.iter() {
            let pa = &pubs[&a];
            if p.t1 < pa.t0 {
              return Some(("C08:order".into(), format!("receiver thread {ti} received {id} after {a} although publish({id}) completed before publish({a}) began")));
            }
          }
          got.push((k, id));
        }
        Res::Disc => {
          if closed_at.is_none() {
            let live = drop_begin.len() < sc.threads.iter().filter(|t| t.producer).count() || drop_begin.iter().any(|&d| d > ev.t1);
            if live {
              return Some(("C08:disc-with-live-sender,C04:early-disc".into(), format!("receiver thread {ti} observed Disconnected while a publisher thread still held its sender handle")));
            }
            if !seen_disc {
              if let Some(v) = check_lost(&subs, &got) {
                return Some(v);
              }
            }
            seen_disc = true;
          }
        }
        _ => {}
      }
    }
  }
  None
}
