//! sched — a deterministic baton-passing scheduler for the traced sync backend
//! of fibre (`--cfg excsn_fibre_verif`, hook H1).  Scenario threads are OS
//! threads but exactly one runs at a time; at every primitive operation the
//! running thread yields to the scheduler, which picks the next thread from a
//! seeded policy or an explicit replay list, and records the event.
use fibre::verif::{self, Event, Kind, Runtime};
use std::collections::HashMap;
use std::panic::{catch_unwind, AssertUnwindSafe};
use std::sync::{Arc, Condvar, Mutex};
use std::time::Duration;

#[derive(Clone, Copy, PartialEq, Eq, Debug)]
enum Status {
  NotStarted,
  Runnable,
  /// deprioritised until another thread takes a step (spin / yield / failed lock)
  Yielding,
  Parked,
  /// parked with a timeout: the scheduler may wake it without a token
  ParkedTimeout,
  Finished,
}

#[derive(Clone, Debug)]
pub struct Rec {
  pub tid: usize,
  pub ev: Event,
}

#[derive(Clone, Debug, PartialEq, Eq)]
pub enum Outcome {
  Completed,
  Deadlock(Vec<usize>),
  StepLimit,
  Panic(String),
}

pub enum Policy {
  /// uniform random among eligible threads
  Random(u64),
  /// PCT-like: random priorities, `d` priority change points
  Pct(u64, usize),
  /// follow the list (thread ids); when exhausted or the choice is not eligible fall back to Random
  Replay(Vec<usize>, u64),
}

struct State {
  status: Vec<Status>,
  token: Vec<bool>,
  current: Option<usize>,
  trace: Vec<Rec>,
  choices: Vec<usize>,
  steps: usize,
  max_steps: usize,
  aborted: Option<Outcome>,
  rng: u64,
  policy: Policy,
  replay_pos: usize,
  prio: Vec<u64>,
  change_points: Vec<usize>,
  spurious_budget: usize,
  record: bool,
  parks: usize,
  spin_run: usize,
}

pub struct Sched {
  st: Mutex<State>,
  cv: Condvar,
}

struct Handle {
  sched: Arc<Sched>,
  tid: usize,
}

fn xorshift(s: &mut u64) -> u64 {
  let mut x = *s;
  x ^= x >> 12;
  x ^= x << 25;
  x ^= x >> 27;
  *s = x;
  x.wrapping_mul(0x2545F4914F6CDD1D)
}

impl State {
  fn eligible(&self) -> Vec<usize> {
    let mut strong = Vec::new();
    let mut weak = Vec::new();
    let mut timeouts = Vec::new();
    for (i, s) in self.status.iter().enumerate() {
      match s {
        Status::Runnable => strong.push(i),
        Status::Yielding => weak.push(i),
        Status::ParkedTimeout => timeouts.push(i),
        _ => {}
      }
    }
    if !strong.is_empty() {
      // a timeout may fire while others run, with low probability (decided by caller)
      strong
    } else if !weak.is_empty() {
      weak
    } else {
      timeouts
    }
  }

  /// choose who runs next; None = nobody can run
  fn pick(&mut self) -> Option<usize> {
    let mut el = self.eligible();
    if el.is_empty() {
      return None;
    }
    // spinners are deprioritised, not starved: otherwise a thread never exhausts its spin budget
    // and the register/park paths are reached only when everybody else is blocked
    let weak: Vec<usize> = self
      .status
      .iter()
      .enumerate()
      .filter(|(_, s)| **s == Status::Yielding)
      .map(|(i, _)| i)
      .collect();
    if !weak.is_empty() && !el.iter().any(|t| weak.contains(t)) && xorshift(&mut self.rng) % 3 == 0 {
      el = weak;
    }
    // occasionally let a timeout fire although others are runnable
    let timeouts: Vec<usize> = self
      .status
      .iter()
      .enumerate()
      .filter(|(_, s)| **s == Status::ParkedTimeout)
      .map(|(i, _)| i)
      .collect();
    if !timeouts.is_empty() && !el.iter().any(|t| timeouts.contains(t)) && xorshift(&mut self.rng) % 16 == 0 {
      el = timeouts;
    }
    let c = match &self.policy {
      Policy::Replay(list, _) if self.replay_pos < list.len() => {
        let want = list[self.replay_pos];
        self.replay_pos += 1;
        let all_ok = matches!(
          self.status.get(want),
          Some(Status::Runnable) | Some(Status::Yielding) | Some(Status::ParkedTimeout)
        );
        if all_ok { want } else { el[(xorshift(&mut self.rng) % el.len() as u64) as usize] }
      }
      Policy::Pct(..) => {
        // strict priorities: a spinning top-priority thread keeps running until it registers and
        // parks (this is what reaches the park paths); a thread that spins for very long is waiting
        // for somebody else's progress, so demote it (no false livelock)
        let mut all: Vec<usize> = self
          .status
          .iter()
          .enumerate()
          .filter(|(_, s)| matches!(**s, Status::Runnable | Status::Yielding))
          .map(|(i, _)| i)
          .collect();
        if all.is_empty() {
          all = el.clone();
        }
        el = all;
        if let Some(&last) = self.choices.last() {
          if self.status.get(last) == Some(&Status::Yielding) {
            self.spin_run += 1;
            if self.spin_run > 300 {
              // below everybody: whoever it is waiting for gets to run
              self.prio[last] = self.prio.iter().min().copied().unwrap_or(1).saturating_sub(1);
              self.spin_run = 0;
            }
          }
          // (not reset by the spinner's own non-spin steps: a `loop { load; spin_loop() }` wait
          // alternates both kinds; the count restarts when another thread gets to run, see below)
        }
        if self.change_points.contains(&self.steps) {
          // demote the currently highest-priority eligible thread
          if let Some(&top) = el.iter().max_by_key(|t| self.prio[**t]) {
            self.prio[top] = self.prio.iter().min().copied().unwrap_or(1).saturating_sub(1);
          }
        }
        *el.iter().max_by_key(|t| self.prio[**t]).unwrap()
      }
      _ => el[(xorshift(&mut self.rng) % el.len() as u64) as usize],
    };
    if self.choices.last() != Some(&c) {
      self.spin_run = 0;
    }
    self.choices.push(c);
    Some(c)
  }
}

impl Sched {
  pub fn new(nthreads: usize, policy: Policy, max_steps: usize, record: bool) -> Arc<Sched> {
    let seed = match &policy {
      Policy::Random(s) | Policy::Pct(s, _) | Policy::Replay(_, s) => *s,
    };
    let mut rng = seed.wrapping_mul(0x9E3779B97F4A7C15) | 1;
    let mut prio = Vec::new();
    for _ in 0..nthreads {
      prio.push(1_000_000 + xorshift(&mut rng) % 1000);
    }
    let mut change_points = Vec::new();
    if let Policy::Pct(_, d) = &policy {
      for _ in 0..*d {
        change_points.push((xorshift(&mut rng) % 400) as usize);
      }
    }
    Arc::new(Sched {
      st: Mutex::new(State {
        status: vec![Status::NotStarted; nthreads],
        token: vec![false; nthreads],
        current: None,
        trace: Vec::new(),
        choices: Vec::new(),
        steps: 0,
        max_steps,
        aborted: None,
        rng,
        policy,
        replay_pos: 0,
        prio,
        change_points,
        spurious_budget: 2,
        record,
        parks: 0,
        spin_run: 0,
      }),
      cv: Condvar::new(),
    })
  }

  /// hand the baton to the next thread and wait until it comes back to `me`
  /// (`me` must already have its new status set).  Returns Err if aborted.
  fn reschedule(&self, me: usize, mut st: std::sync::MutexGuard<'_, State>) -> Result<(), ()> {
    if st.aborted.is_some() {
      return Err(());
    }
    st.steps += 1;
    if st.steps > st.max_steps {
      st.aborted = Some(Outcome::StepLimit);
      if std::env::var("SCHED_DEBUG").is_ok() { eprintln!("ABORT step-limit"); }
      self.cv.notify_all();
      return Err(());
    }
    match st.pick() {
      None => {
        let parked: Vec<usize> = st
          .status
          .iter()
          .enumerate()
          .filter(|(_, s)| **s == Status::Parked)
          .map(|(i, _)| i)
          .collect();
        if st.status.iter().all(|s| *s == Status::Finished) {
          st.current = None;
          self.cv.notify_all();
          return Ok(());
        }
        if std::env::var("SCHED_DEBUG").is_ok() { eprintln!("ABORT deadlock {:?} {:?}", parked, st.status); }
        st.aborted = Some(Outcome::Deadlock(parked));
        self.cv.notify_all();
        Err(())
      }
      Some(next) => {
        if st.status[next] == Status::ParkedTimeout || st.status[next] == Status::Yielding {
          st.status[next] = Status::Runnable;
        }
        // any step by another thread lifts the deprioritisation of the others
        if next != me {
          for i in 0..st.status.len() {
            if i != next && i != me && st.status[i] == Status::Yielding {
              st.status[i] = Status::Runnable;
            }
          }
        }
        st.current = Some(next);
        if next != me {
          self.cv.notify_all();
          while st.current != Some(me) && st.aborted.is_none() {
            st = self.cv.wait(st).unwrap();
          }
          if st.aborted.is_some() {
            return Err(());
          }
        }
        Ok(())
      }
    }
  }

  /// After an abort (deadlock / step limit / panic elsewhere) scenario threads are never resumed
  /// and never unwound: fibre's waiters link stack frames into shared queues, so unwinding a
  /// blocked thread would leave dangling nodes behind.  The thread is leaked, parked forever.
  fn abort_panic(&self) {
    if std::thread::panicking() {
      return;
    }
    loop {
      std::thread::park();
    }
  }
}

impl Runtime for Handle {
  fn before(&self, ev: &Event) {
    let s = &self.sched;
    let st = s.st.lock().unwrap();
    if st.aborted.is_some() {
      drop(st);
      s.abort_panic();
      return;
    }
    let mut st = st;
    let me = self.tid;
    match ev.kind {
      Kind::Spin | Kind::Yield | Kind::Sleep => st.status[me] = Status::Yielding,
      _ => {}
    }
    if s.reschedule(me, st).is_err() {
      s.abort_panic();
    }
  }

  fn after(&self, ev: &Event) {
    let mut st = self.sched.st.lock().unwrap();
    if st.aborted.is_some() && std::thread::panicking() {
      return;
    }
    if (ev.kind == Kind::MutexLock || ev.kind == Kind::MutexTryLock) && !ev.ok && ev.kind == Kind::MutexLock {
      st.status[self.tid] = Status::Yielding;
    }
    if st.record {
      st.trace.push(Rec { tid: self.tid, ev: *ev });
    }
  }

  fn park(&self, timeout: Option<Duration>) {
    let s = &self.sched;
    let mut st = s.st.lock().unwrap();
    if st.aborted.is_some() {
      drop(st);
      s.abort_panic();
      return;
    }
    let me = self.tid;
    if st.token[me] {
      st.token[me] = false;
      return;
    }
    st.parks += 1;
    st.status[me] = if timeout.is_some() { Status::ParkedTimeout } else { Status::Parked };
    if s.reschedule(me, st).is_err() {
      s.abort_panic();
      return;
    }
    let mut st = s.st.lock().unwrap();
    // woken: consume the token if there is one (a timeout wake has none)
    st.token[me] = false;
    st.status[me] = Status::Runnable;
  }

  fn unpark(&self, tid: usize) {
    let mut st = self.sched.st.lock().unwrap();
    if tid < st.status.len() {
      match st.status[tid] {
        Status::Parked | Status::ParkedTimeout => {
          st.status[tid] = Status::Runnable;
          st.token[tid] = true;
        }
        Status::Finished => {}
        _ => st.token[tid] = true,
      }
    }
  }

  fn tid(&self) -> usize {
    self.tid
  }

  fn spurious(&self) -> bool {
    let mut st = self.sched.st.lock().unwrap();
    if st.spurious_budget > 0 && xorshift(&mut st.rng) % 8 == 0 {
      st.spurious_budget -= 1;
      true
    } else {
      false
    }
  }
}

pub struct RunResult {
  pub outcome: Outcome,
  pub trace: Vec<Rec>,
  pub choices: Vec<usize>,
  pub steps: usize,
  /// park calls that really blocked (no token available)
  pub parks: usize,
}

/// Run `bodies` (one closure per scenario thread) under the scheduler.
pub fn run(policy: Policy, max_steps: usize, record: bool, bodies: Vec<Box<dyn FnOnce() + Send>>) -> RunResult {
  let n = bodies.len();
  let sched = Sched::new(n, policy, max_steps, record);
  let mut joins = Vec::new();
  for (tid, body) in bodies.into_iter().enumerate() {
    let sched2 = sched.clone();
    joins.push(std::thread::spawn(move || {
      let h: Arc<dyn Runtime> = Arc::new(Handle { sched: sched2.clone(), tid });
      verif::install(h);
      // wait for the baton
      {
        let mut st = sched2.st.lock().unwrap();
        st.status[tid] = Status::Runnable;
        sched2.cv.notify_all();
        while st.current != Some(tid) && st.aborted.is_none() {
          st = sched2.cv.wait(st).unwrap();
        }
        if st.aborted.is_some() {
          drop(st);
          loop {
            std::thread::park();
          }
        }
      }
      let r = catch_unwind(AssertUnwindSafe(body));
      verif::uninstall();
      let mut st = sched2.st.lock().unwrap();
      st.status[tid] = Status::Finished;
      if let Err(p) = r {
        let msg = if let Some(s) = p.downcast_ref::<&str>() {
          s.to_string()
        } else if let Some(s) = p.downcast_ref::<String>() {
          s.clone()
        } else {
          "panic".to_string()
        };
        if msg != "sched-abort" && st.aborted.is_none() {
          st.aborted = Some(Outcome::Panic(format!("t{tid}: {msg}")));
          sched2.cv.notify_all();
        }
      }
      if st.aborted.is_none() {
        // pass the baton on
        match st.pick() {
          Some(next) => {
            if st.status[next] == Status::ParkedTimeout || st.status[next] == Status::Yielding {
              st.status[next] = Status::Runnable;
            }
            for i in 0..st.status.len() {
              if i != next && st.status[i] == Status::Yielding {
                st.status[i] = Status::Runnable;
              }
            }
            st.current = Some(next);
          }
          None => {
            if !st.status.iter().all(|s| *s == Status::Finished) {
              let parked: Vec<usize> = st
                .status
                .iter()
                .enumerate()
                .filter(|(_, s)| **s == Status::Parked)
                .map(|(i, _)| i)
                .collect();
              st.aborted = Some(Outcome::Deadlock(parked));
            }
            st.current = None;
          }
        }
        sched2.cv.notify_all();
      }
    }));
  }
  // start: wait until all threads are Runnable, then give the baton to the first pick
  {
    let mut st = sched.st.lock().unwrap();
    while st.status.iter().any(|s| *s == Status::NotStarted) {
      st = sched.cv.wait(st).unwrap();
    }
    let first = st.pick();
    st.current = first;
    sched.cv.notify_all();
  }
  {
    // wait until every thread finished, or the run was aborted (then the threads are leaked)
    let mut st = sched.st.lock().unwrap();
    while st.aborted.is_none() && !st.status.iter().all(|s| *s == Status::Finished) {
      let (g, _) = sched.cv.wait_timeout(st, Duration::from_millis(50)).unwrap();
      st = g;
    }
    if st.aborted.is_none() {
      drop(st);
      for j in joins {
        let _ = j.join();
      }
    }
  }
  let mut st = sched.st.lock().unwrap();
  RunResult {
    outcome: st.aborted.clone().unwrap_or(Outcome::Completed),
    trace: std::mem::take(&mut st.trace),
    choices: std::mem::take(&mut st.choices),
    steps: st.steps,
    parks: st.parks,
  }
}

// ---------------------------------------------------------------- variable naming
/// Resolves creation sites to source-level names by reading the *current* source line.
pub struct Namer {
  root: String,
  cache: HashMap<(String, u32), String>,
  /// per (site) creation-ordered instance ids → ordinal
  ordinals: HashMap<String, Vec<u64>>,
}

impl Namer {
  pub fn new(root: &str) -> Self {
    Namer { root: root.to_string(), cache: HashMap::new(), ordinals: HashMap::new() }
  }

  fn site_name(&mut self, file: &str, line: u32) -> String {
    if let Some(n) = self.cache.get(&(file.to_string(), line)) {
      return n.clone();
    }
    let path = if file.starts_with('/') { file.to_string() } else { format!("{}/{}", self.root, file) };
    let name = std::fs::read_to_string(&path)
      .ok()
      .and_then(|s| s.lines().nth(line as usize - 1).map(|l| l.to_string()))
      .map(|l| {
        let l = l.trim();
        // `field: CachePadded::new(AtomicUsize::new(0)),` | `let x = AtomicBool::new(..)` | `field: Mutex::new(..)`
        if let Some(pos) = l.find(':') {
          let head = l[..pos].trim();
          if !head.is_empty() && head.chars().all(|c| c.is_alphanumeric() || c == '_') {
            return head.to_string();
          }
        }
        if let Some(rest) = l.strip_prefix("let ") {
          let rest = rest.trim_start_matches("mut ");
          let id: String = rest.chars().take_while(|c| c.is_alphanumeric() || *c == '_').collect();
          if !id.is_empty() {
            return id;
          }
        }
        format!("L{line}")
      })
      .unwrap_or_else(|| format!("L{line}"));
    let short = file.rsplit('/').next().unwrap_or(file).trim_end_matches(".rs");
    let full = format!("{short}.{name}");
    self.cache.insert((file.to_string(), line), full.clone());
    full
  }

  /// `<file>.<field>#<k>`: k = rank of this instance among all instances seen with the same
  /// source-level name (creation order), so the sender's and the receiver's `closed` are #0 and #1.
  pub fn name(&mut self, v: &verif::Var) -> String {
    let base = self.site_name(v.file, v.line);
    let ords = self.ordinals.entry(base.clone()).or_default();
    if !ords.contains(&v.id) {
      ords.push(v.id);
      ords.sort();
    }
    let idx = ords.iter().position(|x| *x == v.id).unwrap();
    format!("{base}#{idx}")
  }

  /// Pre-registers every variable of a trace so that ordinals are stable (creation order).
  pub fn prime(&mut self, trace: &[Rec]) {
    let mut vars: Vec<verif::Var> = trace.iter().filter_map(|r| r.ev.var).collect();
    vars.sort_by_key(|v| v.id);
    for v in vars {
      let _ = self.name(&v);
    }
  }
}

/// `block_on` whose parking goes through the scheduler (futures_executor's would stall the baton).
pub fn block_on<F: std::future::Future>(fut: F) -> F::Output {
  use std::sync::atomic::{AtomicBool, Ordering};
  use std::task::{Context, Poll, Wake, Waker};
  struct W {
    p: verif::Parker,
    woken: AtomicBool,
  }
  impl Wake for W {
    fn wake(self: Arc<Self>) {
      self.woken.store(true, Ordering::SeqCst);
      self.p.unpark();
    }
  }
  let w = Arc::new(W { p: verif::Parker::current(), woken: AtomicBool::new(false) });
  let waker = Waker::from(w.clone());
  let mut cx = Context::from_waker(&waker);
  let mut fut = std::pin::pin!(fut);
  loop {
    if let Poll::Ready(v) = fut.as_mut().poll(&mut cx) {
      return v;
    }
    while !w.woken.swap(false, Ordering::SeqCst) {
      verif::Parker::park();
    }
  }
}

/// Polls `fut` once with a waker that unparks the calling thread.  Ready: Some(output).  Pending: parks
/// (through the scheduler) until that waker has been invoked and returns None WITHOUT polling again,
/// so that the caller can drop a future that was woken but not re-polled.
pub fn poll_then_wait_woken<F: std::future::Future>(fut: std::pin::Pin<&mut F>) -> Option<F::Output> {
  use std::sync::atomic::{AtomicBool, Ordering};
  use std::task::{Context, Poll, Wake, Waker};
  struct W {
    p: verif::Parker,
    woken: AtomicBool,
  }
  impl Wake for W {
    fn wake(self: Arc<Self>) {
      self.woken.store(true, Ordering::SeqCst);
      self.p.unpark();
    }
  }
  let w = Arc::new(W { p: verif::Parker::current(), woken: AtomicBool::new(false) });
  let waker = Waker::from(w.clone());
  let mut cx = Context::from_waker(&waker);
  if let Poll::Ready(v) = fut.poll(&mut cx) {
    return Some(v);
  }
  while !w.woken.swap(false, Ordering::SeqCst) {
    verif::Parker::park();
  }
  None
}

/// A pure scheduling point for harness code (e.g. between polling a future and dropping it):
/// a self-unpark followed by a park that consumes the token, both of which yield to the scheduler.
pub fn yield_point() {
  let p = verif::Parker::current();
  p.unpark();
  verif::Parker::park();
}

pub fn ord_name(o: Option<std::sync::atomic::Ordering>) -> &'static str {
  use std::sync::atomic::Ordering::*;
  match o {
    None => "-",
    Some(Relaxed) => "Rlx",
    Some(Acquire) => "Acq",
    Some(Release) => "Rel",
    Some(AcqRel) => "AcqRel",
    Some(SeqCst) => "SeqCst",
    Some(_) => "?",
  }
}

pub fn kind_name(k: Kind) -> &'static str {
  match k {
    Kind::Load => "load",
    Kind::Store => "store",
    Kind::Swap => "swap",
    Kind::Cas => "cas",
    Kind::CasWeak => "casw",
    Kind::FetchAdd => "fadd",
    Kind::FetchSub => "fsub",
    Kind::FetchOr => "for",
    Kind::FetchAnd => "fand",
    Kind::Fence => "fence",
    Kind::MutexLock => "lock",
    Kind::MutexTryLock => "trylock",
    Kind::MutexUnlock => "unlock",
    Kind::Park => "park",
    Kind::ParkTimeout => "parkt",
    Kind::Unpark => "unpark",
    Kind::Yield => "yield",
    Kind::Spin => "spin",
    Kind::Sleep => "sleep",
  }
}

/// one trace line: `t<tid> <kind> <var> <ord> <ordfail> a=<a> b=<b> r=<result> ok=<0|1> @file:line`
pub fn format_rec(n: &mut Namer, r: &Rec) -> String {
  let var = match &r.ev.var {
    Some(v) => n.name(v),
    None => "-".to_string(),
  };
  let short = r.ev.at_file.rsplit('/').next().unwrap_or(r.ev.at_file);
  format!(
    "t{} {} {} {} {} a={} b={} r={} ok={} @{}:{}",
    r.tid,
    kind_name(r.ev.kind),
    var,
    ord_name(r.ev.ord),
    ord_name(r.ev.ord_fail),
    r.ev.a,
    r.ev.b,
    r.ev.result,
    r.ev.ok as u8,
    short,
    r.ev.at_line
  )
}
