//! lockscen — runs small multi-threaded programs on the REAL fibre::sync::HybridMutex /
//! HybridRwLock under the deterministic scheduler (hook H1), many schedules per program,
//! with property monitors for C10.
//!
//! stdin, one scenario per line:
//!   mutex  <runs> <seed> [trace] [pol=r|b|p|m] [rawseed=n] [choices=c,c,..] | T: l lh tl al ap ad | T: ...
//!   (run i uses seed*1000003+i, or rawseed+i; policy r=random b=bursty prefix p=PCT m=mixed;
//!    choices= replays an explicit schedule, falling back to random when it ends)
//!   rwlock <runs> <seed> [trace] [choices=c,c,..] | T: r w tr tw ar aw apr apw ad | ...
//! ops (mutex):  l  = lock(); critical section; unlock      tl = try_lock() (+cs, unlock if Some)
//!               al = block_on(lock_async()) (+cs, unlock)   ap = create the lock future if the
//!               thread has none, poll it ONCE with a counting waker (+cs, unlock if Ready)
//!               ad = drop the thread's pending future (no-op if none)
//!               yw = if a future is pending: yield (self-unpark) until its waker fired (<= 300 times)
//!               ys = the same, but at most 12 times (a short delay: the future is usually NOT yet woken)
//! ops (rwlock): r/w, tr/tw, ar/aw, apr/apw, ad  likewise for read / write.
//! A thread that starts a blocking op (l al r w ar aw) while it owns a pending future first
//! drops that future (a thread never blocks while it owns a linked waiter node); a pending
//! future is dropped at the end of the thread's program.
//!
//! The critical section touches an instrumented probe guarded ONLY by the lock under test and
//! contains one scheduler yield point (a self-`unpark`, the only yield point reachable from
//! outside the crate; it leaves a park token, i.e. also exercises spurious park returns).
//!
//! stdout, one line per scenario:
//!   ok runs=<n> steps=<s> events=<e> pct_starved=<k> [|| <run 0> ## <run 1> ...]
//!   FAIL <clause> run=<i> seed=<s> :: <detail> :: choices=<c,c,...> [|| <failing run>]
//! where <run k> = `res=<t0 results>/<t1 results>/.. ;; ev ; ev ; ...` (with `trace`).
//! clauses: C10:guard-coexist C10:lost-update C10:deadlock C10:step-limit C10:panic C10:try-blocked C10:writer-gate
use fibre::sync::{HybridMutex, HybridRwLock};
use fibre::verif::{Kind, Parker};
use sched::{format_rec, run, Namer, Outcome, Policy};
use std::future::Future;
use std::io::{self, BufRead, Write};
use std::pin::Pin;
use std::sync::atomic::{AtomicI32, AtomicU32, AtomicU64, Ordering::SeqCst};
use std::sync::{Arc, Mutex};
use std::task::{Context, Poll, Wake, Waker};

#[derive(Default)]
struct Probe {
  writers: AtomicI32,
  readers: AtomicI32,
  counter: AtomicU64,
  overlaps: AtomicU32,
  wsections: AtomicU64,
  rsections: AtomicU64,
  max_readers: AtomicI32,
}

impl Probe {
  /// exclusive critical section: read - yield - write on a counter protected only by the lock
  fn cs_write(&self, yields: usize) {
    let w = self.writers.fetch_add(1, SeqCst);
    let r = self.readers.load(SeqCst);
    if w != 0 || r != 0 {
      self.overlaps.fetch_add(1, SeqCst);
    }
    let v = self.counter.load(SeqCst);
    for _ in 0..yields {
      Parker::current().unpark(); // scheduler yield point inside the critical section
    }
    self.counter.store(v + 1, SeqCst);
    self.writers.fetch_sub(1, SeqCst);
    self.wsections.fetch_add(1, SeqCst);
  }
  fn cs_read(&self, yields: usize) {
    let r = self.readers.fetch_add(1, SeqCst) + 1;
    if self.writers.load(SeqCst) != 0 {
      self.overlaps.fetch_add(1, SeqCst);
    }
    self.max_readers.fetch_max(r, SeqCst);
    for _ in 0..yields {
      Parker::current().unpark();
    }
    if self.writers.load(SeqCst) != 0 {
      self.overlaps.fetch_add(1, SeqCst);
    }
    self.readers.fetch_sub(1, SeqCst);
    self.rsections.fetch_add(1, SeqCst);
  }
}

/// yield points in a long-hold critical section (ops lh / rh / wh)
const HOLD: usize = 60;

struct CountWaker(AtomicU32);
impl Wake for CountWaker {
  fn wake(self: Arc<Self>) {
    self.0.fetch_add(1, SeqCst);
  }
}

/// op `yw`: while the thread owns a pending future, take yield points (self-unpark, >= 1, <= 300)
/// until the future's counting waker has fired since the last poll
fn wait_woken(pending: bool, cw: &CountWaker, seen: u32, max: usize) {
  if !pending {
    return;
  }
  for _ in 0..max {
    Parker::current().unpark();
    if cw.0.load(SeqCst) != seen {
      break;
    }
  }
}

struct Scenario {
  kind: String,
  runs: usize,
  seed: u64,
  trace: bool,
  choices: Option<Vec<usize>>,
  pol: char,
  rawseed: Option<u64>,
  threads: Vec<Vec<String>>,
}

fn parse(line: &str) -> Result<Scenario, String> {
  let parts: Vec<&str> = line.split('|').collect();
  let head: Vec<&str> = parts[0].split_whitespace().collect();
  if head.len() < 3 {
    return Err("bad header".into());
  }
  let mut threads = Vec::new();
  for p in &parts[1..] {
    let toks: Vec<&str> = p.split_whitespace().collect();
    if toks.is_empty() {
      continue;
    }
    threads.push(toks[1..].iter().map(|s| s.to_string()).collect());
  }
  let mut trace = false;
  let mut choices = None;
  let mut pol = 'm';
  let mut rawseed = None;
  for t in &head[3..] {
    if let Some(p) = t.strip_prefix("rawseed=") {
      rawseed = p.parse().ok();
    }
    if let Some(p) = t.strip_prefix("pol=") {
      pol = p.chars().next().unwrap_or('m');
    }
    if *t == "trace" {
      trace = true;
    } else if let Some(c) = t.strip_prefix("choices=") {
      choices = Some(c.split(',').filter(|x| !x.is_empty()).map(|x| x.parse().unwrap_or(0)).collect());
    }
  }
  Ok(Scenario {
    kind: head[0].to_string(),
    runs: head[1].parse().map_err(|_| "runs")?,
    seed: head[2].parse().map_err(|_| "seed")?,
    trace,
    choices,
    pol,
    rawseed,
    threads,
  })
}

struct OneRun {
  outcome: Outcome,
  results: Vec<Vec<String>>,
  steps: usize,
  choices: Vec<usize>,
  trace: Vec<sched::Rec>,
  overlaps: u32,
  counter: u64,
  wsections: u64,
  pct: bool,
}

type Results = Arc<Mutex<Vec<Vec<String>>>>;

fn push(results: &Results, ti: usize, s: &str) {
  results.lock().unwrap()[ti].push(s.to_string());
}

fn mutex_body(m: &'static HybridMutex<()>, probe: Arc<Probe>, ops: Vec<String>, ti: usize, results: Results) -> Box<dyn FnOnce() + Send> {
  Box::new(move || {
    let cw = Arc::new(CountWaker(AtomicU32::new(0)));
    let waker = Waker::from(cw.clone());
    let mut fut: Option<Pin<Box<dyn Future<Output = fibre::sync::MutexGuard<'static, ()>> + Send>>> = None;
    let mut seen = 0u32;
    for op in &ops {
      match op.as_str() {
        "l" | "lh" => {
          fut = None;
          let g = m.lock();
          probe.cs_write(if op == "lh" { HOLD } else { 1 });
          drop(g);
          push(&results, ti, "L");
        }
        "tl" => match m.try_lock() {
          Some(g) => {
            probe.cs_write(1);
            drop(g);
            push(&results, ti, "T1");
          }
          None => push(&results, ti, "T0"),
        },
        "al" => {
          fut = None;
          let g = sched::block_on(m.lock_async());
          probe.cs_write(1);
          drop(g);
          push(&results, ti, "A");
        }
        "ap" => {
          if fut.is_none() {
            fut = Some(Box::pin(m.lock_async()));
          }
          let mut cx = Context::from_waker(&waker);
          seen = cw.0.load(SeqCst);
          match fut.as_mut().unwrap().as_mut().poll(&mut cx) {
            Poll::Ready(g) => {
              fut = None;
              probe.cs_write(1);
              drop(g);
              push(&results, ti, "P1");
            }
            Poll::Pending => push(&results, ti, "P0"),
          }
        }
        "ad" => {
          fut = None;
        }
        "yw" => wait_woken(fut.is_some(), &cw, seen, 300),
        "ys" => wait_woken(fut.is_some(), &cw, seen, 12),
        o => panic!("bad mutex op {o}"),
      }
    }
    drop(fut);
  })
}

enum RwFut {
  R(Pin<Box<dyn Future<Output = fibre::sync::ReadGuard<'static, ()>> + Send>>),
  W(Pin<Box<dyn Future<Output = fibre::sync::WriteGuard<'static, ()>> + Send>>),
}

fn rwlock_body(l: &'static HybridRwLock<()>, probe: Arc<Probe>, ops: Vec<String>, ti: usize, results: Results) -> Box<dyn FnOnce() + Send> {
  Box::new(move || {
    let cw = Arc::new(CountWaker(AtomicU32::new(0)));
    let waker = Waker::from(cw.clone());
    let mut fut: Option<RwFut> = None;
    let mut seen = 0u32;
    for op in &ops {
      match op.as_str() {
        "r" | "rh" => {
          fut = None;
          let g = l.read();
          probe.cs_read(if op == "rh" { HOLD } else { 1 });
          drop(g);
          push(&results, ti, "R");
        }
        "w" | "wh" => {
          fut = None;
          let g = l.write();
          probe.cs_write(if op == "wh" { HOLD } else { 1 });
          drop(g);
          push(&results, ti, "W");
        }
        "tr" => match l.try_read() {
          Some(g) => {
            probe.cs_read(1);
            drop(g);
            push(&results, ti, "TR1");
          }
          None => push(&results, ti, "TR0"),
        },
        "tw" => match l.try_write() {
          Some(g) => {
            probe.cs_write(1);
            drop(g);
            push(&results, ti, "TW1");
          }
          None => push(&results, ti, "TW0"),
        },
        "ar" => {
          fut = None;
          let g = sched::block_on(l.read_async());
          probe.cs_read(1);
          drop(g);
          push(&results, ti, "AR");
        }
        "aw" => {
          fut = None;
          let g = sched::block_on(l.write_async());
          probe.cs_write(1);
          drop(g);
          push(&results, ti, "AW");
        }
        "apr" | "apw" => {
          // a pending future of the other kind is dropped first
          let want_r = op == "apr";
          let keep = matches!((&fut, want_r), (Some(RwFut::R(_)), true) | (Some(RwFut::W(_)), false));
          if !keep {
            fut = None;
            fut = Some(if want_r { RwFut::R(Box::pin(l.read_async())) } else { RwFut::W(Box::pin(l.write_async())) });
          }
          let mut cx = Context::from_waker(&waker);
          seen = cw.0.load(SeqCst);
          let ready = match fut.as_mut().unwrap() {
            RwFut::R(f) => match f.as_mut().poll(&mut cx) {
              Poll::Ready(g) => {
                probe.cs_read(1);
                drop(g);
                true
              }
              Poll::Pending => false,
            },
            RwFut::W(f) => match f.as_mut().poll(&mut cx) {
              Poll::Ready(g) => {
                probe.cs_write(1);
                drop(g);
                true
              }
              Poll::Pending => false,
            },
          };
          if ready {
            fut = None;
          }
          push(&results, ti, if ready { "P1" } else { "P0" });
        }
        "ad" => {
          fut = None;
        }
        "yw" => wait_woken(fut.is_some(), &cw, seen, 300),
        "ys" => wait_woken(fut.is_some(), &cw, seen, 12),
        o => panic!("bad rwlock op {o}"),
      }
    }
    drop(fut);
  })
}

fn run_once(sc: &Scenario, policy: Policy) -> OneRun {
  let pct = matches!(policy, Policy::Pct(..));
  let probe = Arc::new(Probe::default());
  let results: Results = Arc::new(Mutex::new(vec![Vec::new(); sc.threads.len()]));
  let mut bodies: Vec<Box<dyn FnOnce() + Send>> = Vec::new();
  if sc.kind == "mutex" {
    let m: &'static HybridMutex<()> = Box::leak(Box::new(HybridMutex::new(())));
    for (ti, ops) in sc.threads.iter().enumerate() {
      bodies.push(mutex_body(m, probe.clone(), ops.clone(), ti, results.clone()));
    }
  } else {
    let l: &'static HybridRwLock<()> = Box::leak(Box::new(HybridRwLock::new(())));
    for (ti, ops) in sc.threads.iter().enumerate() {
      bodies.push(rwlock_body(l, probe.clone(), ops.clone(), ti, results.clone()));
    }
  }
  let rr = run(policy, 60_000, true, bodies);
  let results = results.lock().unwrap().clone();
  OneRun {
    outcome: rr.outcome,
    results,
    steps: rr.steps,
    choices: rr.choices,
    trace: rr.trace,
    overlaps: probe.overlaps.load(SeqCst),
    counter: probe.counter.load(SeqCst),
    wsections: probe.wsections.load(SeqCst),
    pct,
  }
}

/// A schedule prefix made of bursts: one thread is given many consecutive steps (also while it
/// spins/yields), so that a contender really exhausts its 100 spin rounds and parks while the
/// holder sits inside its critical section.  After the prefix the run continues randomly.
fn bursty(seed: u64, n: usize) -> Vec<usize> {
  let mut x = seed.wrapping_mul(0x9E3779B97F4A7C15) | 1;
  let mut next = move || {
    x ^= x >> 12;
    x ^= x << 25;
    x ^= x >> 27;
    x.wrapping_mul(0x2545F4914F6CDD1D)
  };
  let lens = [1usize, 1, 2, 3, 5, 8, 13, 40, 330, 330];
  let mut out = Vec::new();
  while out.len() < 2500 {
    let t = (next() % n.max(1) as u64) as usize;
    let l = lens[(next() % lens.len() as u64) as usize];
    for _ in 0..l {
      out.push(t);
    }
  }
  out
}

fn is_try(op: &str) -> bool {
  matches!(op, "tl" | "tr" | "tw")
}

fn judge(sc: &Scenario, r: &OneRun) -> Option<(String, String)> {
  if r.overlaps != 0 {
    return Some(("C10:guard-coexist".into(), format!("{} critical-section overlaps (a mutex/write guard coexisted with another guard); results={:?}", r.overlaps, r.results)));
  }
  match &r.outcome {
    Outcome::Deadlock(parked) => {
      return Some(("C10:deadlock".into(), format!("threads {parked:?} parked forever with nobody runnable (lost wakeup); results={:?}", r.results)));
    }
    Outcome::StepLimit => {
      // Under the strict-priority PCT policy a spinner can starve the holder of the list spinlock
      // forever (priority inversion of the unfair scheduler, not of the code): not judged.
      if r.pct {
        return None;
      }
      return Some(("C10:step-limit".into(), "schedule exceeded 60000 steps under a fair random schedule (livelock / unbounded spin)".into()));
    }
    Outcome::Panic(m) => return Some(("C10:panic".into(), m.clone())),
    Outcome::Completed => {}
  }
  if r.counter != r.wsections {
    return Some(("C10:lost-update".into(), format!("protected counter = {} after {} exclusive critical sections", r.counter, r.wsections)));
  }
  // writer gate (safety core of "a queued writer is not starved by a stream of readers"), judged on
  // the implementation's own events: no successful CAS adds a reader (new = old + READER_UNIT) to a
  // state word that has WRITER_PENDING (2) or WRITE_LOCKED (1) set
  if sc.kind == "rwlock" {
    for rec in &r.trace {
      let ev = &rec.ev;
      let on_state = ev.var.map(|v| v.file.ends_with("rwlock.rs")).unwrap_or(false);
      if on_state && matches!(ev.kind, Kind::Cas | Kind::CasWeak) && ev.ok && ev.b == ev.a.wrapping_add(8) && ev.a & 3 != 0 {
        return Some(("C10:writer-gate".into(), format!("thread {} acquired a read guard by CAS {} -> {} although WRITER_PENDING/WRITE_LOCKED was set (a queued writer can be starved)", rec.tid, ev.a, ev.b)));
      }
    }
  }
  // try_ variants never block: a thread whose whole program is try_ ops takes no park/yield step
  // (the release of a guard obtained by try_ may spin briefly on the wait-list spinlock in
  // wake_next / wake_waiters: that is the guard drop, not the try_ call, and it never parks)
  for (ti, ops) in sc.threads.iter().enumerate() {
    if !ops.is_empty() && ops.iter().all(|o| is_try(o)) {
      for rec in &r.trace {
        if rec.tid == ti && matches!(rec.ev.kind, Kind::Park | Kind::ParkTimeout | Kind::Yield | Kind::Sleep) {
          return Some(("C10:try-blocked".into(), format!("thread {ti} (try_ ops only) executed a {} step", sched::kind_name(rec.ev.kind))));
        }
      }
    }
  }
  None
}

fn fmt_run(root: &str, r: &OneRun) -> String {
  let mut namer = Namer::new(root);
  namer.prime(&r.trace);
  let res: Vec<String> = r.results.iter().map(|v| if v.is_empty() { "-".to_string() } else { v.join(",") }).collect();
  let evs: Vec<String> = r
    .trace
    .iter()
    .map(|rec| {
      let s = format_rec(&mut namer, rec);
      s
    })
    .collect();
  format!("res={} ;; {}", res.join("/"), evs.join(" ; "))
}

fn main() {
  std::panic::set_hook(Box::new(|_| {}));
  let root = std::env::var("VERIF_REPO").unwrap_or_else(|_| "/repo".to_string());
  let stdin = io::stdin();
  let stdout = io::stdout();
  let mut out = io::BufWriter::new(stdout.lock());
  for line in stdin.lock().lines() {
    let line = line.unwrap();
    if line.trim().is_empty() {
      writeln!(out).unwrap();
      continue;
    }
    let sc = match parse(&line) {
      Ok(s) => s,
      Err(e) => {
        writeln!(out, "BAD-SCENARIO {e}").unwrap();
        continue;
      }
    };
    let mut steps = 0usize;
    let mut events = 0usize;
    let mut fail: Option<(String, String, usize, u64, OneRun)> = None;
    let mut traces: Vec<String> = Vec::new();
    let mut starved = 0usize;
    for i in 0..sc.runs {
      let seed = match sc.rawseed {
        Some(r) => r.wrapping_add(i as u64),
        None => sc.seed.wrapping_mul(1_000_003).wrapping_add(i as u64),
      };
      let policy = match &sc.choices {
        Some(c) => Policy::Replay(c.clone(), seed),
        None => {
          if sc.pol == 'b' || (sc.pol == 'm' && i % 3 == 1) {
            Policy::Replay(bursty(seed, sc.threads.len()), seed)
          } else if sc.pol == 'p' || (sc.pol == 'm' && i % 3 == 2) {
            Policy::Pct(seed, 3)
          } else {
            Policy::Random(seed)
          }
        }
      };
      let r = run_once(&sc, policy);
      steps += r.steps;
      events += r.trace.len();
      if let Some((c, d)) = judge(&sc, &r) {
        fail = Some((c, d, i, seed, r));
        break;
      }
      if r.outcome == Outcome::StepLimit {
        starved += 1;
        continue;
      }
      if sc.trace {
        traces.push(fmt_run(&root, &r));
      }
    }
    match fail {
      Some((c, d, i, seed, r)) => {
        let ch: Vec<String> = r.choices.iter().map(|c| c.to_string()).collect();
        write!(out, "FAIL {c} run={i} seed={seed} :: {d} :: choices={}", ch.join(",")).unwrap();
        if sc.trace {
          write!(out, " || {}", fmt_run(&root, &r)).unwrap();
        }
        writeln!(out).unwrap();
      }
      None => {
        write!(out, "ok runs={} steps={} events={} pct_starved={}", sc.runs, steps, events, starved).unwrap();
        if sc.trace {
          write!(out, " || {}", traces.join(" ## ")).unwrap();
        }
        writeln!(out).unwrap();
      }
    }
    out.flush().unwrap();
  }
}
