//! k3ticket — implementation-side line driver of the K3 ticket-protocol engine (mpsc bounded_v3,
//! D2 trace refinement).
//!
//! A thin front end over the scenario runner `scen` (same directory): every case line is turned
//! into a `scen` scenario (flavour `mpscb`), executed by a `scen` child process on the REAL channel
//! under the deterministic scheduler, and scen's answer is re-emitted on ONE line in the format the
//! model driver (`ocaml/eng_k3ticket.ml`) reads.  Nothing is judged here: verdicts are scen's
//! monitors (FAIL lines) and the model's replay.
//!
//! case lines (ops may carry a repeat count: `ts*300`):
//!   T <cap> <seed> <pct|rand> <cc> <n> <K> [wide] | P: <op>* | P: ... | C: <op>*   one schedule, traced
//!        (cc, n, K: the chunk size / table size / publish cadence the engine computed from the
//!         constants in the CURRENT shared.rs / mod.rs; passed through to the model driver)
//!   S <cap> <seed> <runs> [wide] [rr<k>] | P: ... | C: ...                           <runs> schedules, monitors only
//!        (rr<k>: every schedule starts with a round-robin prefix of k events per thread)
//!   K <function> <row>*                                                              D3 skeleton row list (echoed)
//! output:
//!   T: `<ok <n> done | FAIL <clause> ...> ;; <cap> <cc> <n> <K> <idbase> TH P <ops> TH C <ops> ... RES <tI=[..]>* T <event>*`
//!      event = tid,kind,var,ord,ordfail,a,b,r,ok
//!   S: `search ok runs=.. steps=.. parks=..`  |  `FAIL <clause> ...`
//!   K: `skel <function> :: <row> ; <row> ...`
use std::io::{self, BufRead, BufReader, Write};
use std::process::{Child, ChildStdin, ChildStdout, Command, Stdio};

struct Scen {
  _child: Child,
  tx: ChildStdin,
  rx: BufReader<ChildStdout>,
}

impl Scen {
  fn start() -> Scen {
    let me = std::env::current_exe().expect("current_exe");
    let scen = me.parent().expect("exe dir").join("scen_ticket");
    let mut child = Command::new(scen)
      .stdin(Stdio::piped())
      .stdout(Stdio::piped())
      .stderr(Stdio::null())
      .spawn()
      .expect("cannot start scen (built from the same crate)");
    let tx = child.stdin.take().unwrap();
    let rx = BufReader::new(child.stdout.take().unwrap());
    Scen { _child: child, tx, rx }
  }

  fn ask(&mut self, line: &str) -> String {
    writeln!(self.tx, "{line}").unwrap();
    self.tx.flush().unwrap();
    let mut out = String::new();
    self.rx.read_line(&mut out).unwrap();
    out.trim_end().to_string()
  }
}

/// `t1 cas shared.id#0 AcqRel Acq a=0 b=3 r=0 ok=1 @shared.rs:600` -> `t1,cas,shared.id#0,AcqRel,Acq,0,3,0,1`
fn conv_ev(l: &str) -> Option<String> {
  let t: Vec<&str> = l.split_whitespace().collect();
  if t.len() < 9 || !t[0].starts_with('t') {
    return None;
  }
  let a = t[5].strip_prefix("a=")?;
  let b = t[6].strip_prefix("b=")?;
  let r = t[7].strip_prefix("r=")?;
  let ok = t[8].strip_prefix("ok=")?;
  Some(format!("{},{},{},{},{},{},{},{},{}", t[0], t[1], t[2], t[3], t[4], a, b, r, ok))
}

/// expands `ts*3` into `ts ts ts`
fn expand(ops: &[&str]) -> Vec<String> {
  let mut out = Vec::new();
  for o in ops {
    match o.split_once('*') {
      Some((op, k)) => {
        for _ in 0..k.parse::<usize>().unwrap_or(1) {
          out.push(op.to_string());
        }
      }
      None => out.push(o.to_string()),
    }
  }
  out
}

fn main() {
  let stdin = io::stdin();
  let stdout = io::stdout();
  let mut out = io::BufWriter::new(stdout.lock());
  let mut scen: Option<Scen> = None;
  for line in stdin.lock().lines() {
    let line = line.unwrap();
    let line = line.trim();
    if line.is_empty() {
      writeln!(out).unwrap();
      continue;
    }
    let parts: Vec<&str> = line.split('|').collect();
    let head: Vec<&str> = parts[0].split_whitespace().collect();
    // thread specs with expanded ops
    let mut threads: Vec<(char, Vec<String>)> = Vec::new();
    for p in &parts[1..] {
      let toks: Vec<&str> = p.split_whitespace().collect();
      if toks.is_empty() {
        continue;
      }
      threads.push((if toks[0].starts_with('P') { 'P' } else { 'C' }, expand(&toks[1..])));
    }
    let scen_threads =
      threads.iter().map(|(k, ops)| format!("{k}: {}", ops.join(" "))).collect::<Vec<_>>().join(" | ");
    let wide = head.contains(&"wide");
    // `rr<k>`: round-robin prefix of k events per thread (passed through to scen)
    let rr = head.iter().find(|t| t.starts_with("rr") && t[2..].parse::<usize>().is_ok()).map(|t| format!(" {t}")).unwrap_or_default();
    match head[0] {
      "K" => {
        let f = head.get(1).copied().unwrap_or("?");
        writeln!(out, "skel {f} :: {}", head[2..].join(" ; ")).unwrap();
      }
      "S" if head.len() >= 4 => {
        let s = scen.get_or_insert_with(Scen::start);
        let ans = s.ask(&format!(
          "mpscb {} {} {} oneline{}{} | {}",
          head[1],
          head[3],
          head[2],
          if wide { " wide" } else { "" },
          rr,
          scen_threads
        ));
        if ans.starts_with("ok ") {
          writeln!(out, "search {ans}").unwrap();
        } else {
          writeln!(out, "{}", ans.chars().take(600).collect::<String>()).unwrap();
        }
      }
      "T" if head.len() >= 7 => {
        let s = scen.get_or_insert_with(Scen::start);
        let ans = s.ask(&format!(
          "mpscb {} 1 {} trace {} results oneline{}{} | {}",
          head[1],
          head[2],
          head[3],
          if wide { " wide" } else { "" },
          rr,
          scen_threads
        ));
        let segs: Vec<&str> = ans.split(" ;; ").collect();
        let verdict = segs.first().copied().unwrap_or("");
        let mut results = "";
        let mut evs: Vec<String> = Vec::new();
        for sg in &segs[1.min(segs.len())..] {
          if let Some(r) = sg.strip_prefix("results ") {
            results = r;
          } else if let Some(e) = conv_ev(sg) {
            evs.push(e);
          }
        }
        let summary =
          if verdict.starts_with("ok ") { format!("ok {} done", evs.len()) } else { verdict.chars().take(600).collect() };
        let th = threads.iter().map(|(k, ops)| format!("TH {k} {}", ops.join(" "))).collect::<Vec<_>>().join(" ");
        writeln!(
          out,
          "{summary} ;; {} {} {} {} {} {} RES {} T {}",
          head[1],
          head[4],
          head[5],
          head[6],
          if wide { 1000 } else { 100 },
          th,
          results,
          evs.join(" ")
        )
        .unwrap();
      }
      _ => writeln!(out, "DRIVER bad case line").unwrap(),
    }
    out.flush().unwrap();
  }
}
