//! scen — runs small multi-threaded scenario programs on the REAL fibre channels
//! under the deterministic scheduler, many schedules per program, with
//! property monitors (conservation, order, drops, deadlock, panic).
//!
//! stdin, one scenario per line:
//!   <flavour> <cap> <runs> <seed> [trace] [pct|rand] [results] [oneline] | P: ops | P: ops | C: ops ...
//!   (`pct` / `rand` force that policy for every run instead of the 2:1 mix; `results` adds a
//!    `results t0=[..] t1=[..]` line (API results of the traced run) right after the result line;
//!    `oneline` joins all output lines of the scenario with ` ;; ` into one line)
//! flavours:
//!   point-to-point  spsc mpscb mpscu mpmcb mpmcu spscrv mpscrv mpmcrv   (sync handles)
//!                   spsca mpscba mpscua mpmcba mpmcua spscrva mpscrva mpmcrva  (async handles, driven
//!                   through sched::block_on)
//!   broadcast       spmc / spmca      (src/scenmods/spmc.rs)
//!   pub/sub         topic / topica    (src/scenmods/topic.rs; needs hook H2-topic, else `ok skipped=no-hook`)
//! thread label `P:`/`C:` uses the flavour's default handle kind; `PA:`/`CA:` force the async handle,
//! `PS:`/`CS:` the sync handle (mixed scenarios on one channel; the handle is converted with
//! to_async()/to_sync() before the threads start).
//! thread ops (point-to-point):
//!   producer: s (send) ts (try_send) y (no-op)
//!             sc (async only: create a send future, poll it once with a counting waker, scheduling
//!                 point, drop it)
//!   consumer: r (recv) tr (try_recv) rt (sync: recv_timeout 20us; async: poll, scheduling point, poll
//!             again with the same waker, drop) D (drain: recv until Disconnected) y
//!             rc (async only: create a recv future, poll once with a counting waker, scheduling point,
//!                 drop it)
//!             rw / sw (async only: poll once with a waker that unparks the thread; if Pending, park until
//!                 that waker is invoked, then drop the future WITHOUT polling it again: a woken future
//!                 dropped un-polled must pass its wake-up on)
//!             rp (async only: poll once with a counting waker, then block_on the SAME future, i.e.
//!                 re-poll with a different waker)
//!             K  (mpmcb only, last op: keep this receiver handle alive after the thread ends, like an idle
//!                 task holding it; the teardown then does not release parked senders, and a run that ends
//!                 with parked threads is judged by their wait conditions: a sender parked although the
//!                 buffer has room / a receiver parked although items are buffered is a lost wake-up)
//! stdout per scenario:
//!   ok runs=<n> steps=<total> events=<total> done=<completed> ...
//!   FAIL <clause>[,<clause>...] run=<i> seed=<s> :: <detail> :: choices=<c,c,...>
//! A run that deadlocks is reported as C05:deadlock, and ALSO as C06:missed-wake when a stuck thread
//! is inside block_on (its waker was never invoked), as C04:no-disc when a receiver is stuck although
//! every producer thread finished (Disconnected never observed).
//! With `trace`, the event trace of the failing (or first) run is printed after
//! the result line, one event per line, terminated by `end-trace`.
#[path = "../scenmods/common.rs"]
mod common;
#[path = "../scenmods/spmc.rs"]
mod spmc;
#[path = "../scenmods/topic.rs"]
mod topic;

use common::*;
use sched::{format_rec, run, Namer, Outcome, Policy};
use std::io::{self, BufRead, Write};
use std::sync::atomic::{AtomicU32, Ordering};
use std::sync::{Arc, Mutex};
use std::task::Poll;
use std::time::Duration;

const MAXID: usize = 4096;
static DROPS: [AtomicU32; MAXID] = [const { AtomicU32::new(0) }; MAXID];

#[derive(Debug)]
struct P(u64);
impl Drop for P {
  fn drop(&mut self) {
    DROPS[self.0 as usize % MAXID].fetch_add(1, Ordering::SeqCst);
  }
}

trait TxH: Send {
  fn send(&mut self, p: P) -> Res;
  fn try_send(&mut self, p: P) -> Res;
  fn send_cancel(&mut self, _p: P) -> Res {
    panic!("op sc needs an async handle")
  }
  fn send_woken_drop(&mut self, _p: P) -> Res {
    panic!("op sw needs an async handle")
  }
  fn dup(&self) -> Option<Box<dyn TxH>>;
  /// sync <-> async conversion (to_async / to_sync)
  fn flip(self: Box<Self>) -> Box<dyn TxH>;
  fn mode(&self) -> Mode;
}
trait RxH: Send {
  fn recv(&mut self) -> Res;
  fn try_recv(&mut self) -> Res;
  fn recv_timeout(&mut self, d: Duration) -> Res;
  fn recv_cancel(&mut self) -> Res {
    panic!("op rc needs an async handle")
  }
  fn recv_repoll(&mut self) -> Res {
    panic!("op rp needs an async handle")
  }
  fn recv_woken_drop(&mut self) -> Res {
    panic!("op rw needs an async handle")
  }
  fn dup(&self) -> Option<Box<dyn RxH>>;
  fn flip(self: Box<Self>) -> Box<dyn RxH>;
  fn mode(&self) -> Mode;
  /// (buffered items, capacity) where the handle can tell (used to judge a quiescent state with a
  /// kept-alive receiver, op `K`)
  fn probe(&self) -> Option<(usize, usize)>;
}

fn try_send_res(id: u64, r: Result<(), fibre::TrySendError<P>>) -> Res {
  match r {
    Ok(()) => Res::SendOk(id),
    Err(fibre::TrySendError::Full(v)) => {
      std::mem::forget(v);
      Res::SendFull(id)
    }
    Err(fibre::TrySendError::Closed(v)) => {
      std::mem::forget(v);
      Res::SendClosed(id)
    }
    Err(fibre::TrySendError::Sent(v)) => {
      std::mem::forget(v);
      Res::SendClosed(id)
    }
  }
}

fn val(v: P) -> Res {
  let id = v.0;
  std::mem::forget(v);
  Res::Val(id)
}

fn try_recv_res(r: Result<P, fibre::TryRecvError>) -> Res {
  match r {
    Ok(v) => val(v),
    Err(fibre::TryRecvError::Empty) => Res::Empty,
    Err(fibre::TryRecvError::Disconnected) => Res::Disc,
  }
}

macro_rules! impl_tx {
  ($t:ty, $other:ty, $conv:ident, $clone:expr) => {
    impl TxH for $t {
      fn send(&mut self, p: P) -> Res {
        let id = p.0;
        match <$t>::send(self, p) {
          Ok(()) => Res::SendOk(id),
          Err(_) => Res::SendClosedDropped(id),
        }
      }
      fn try_send(&mut self, p: P) -> Res {
        let id = p.0;
        try_send_res(id, <$t>::try_send(self, p))
      }
      fn dup(&self) -> Option<Box<dyn TxH>> {
        let f: fn(&$t) -> Option<Box<dyn TxH>> = $clone;
        f(self)
      }
      fn flip(self: Box<Self>) -> Box<dyn TxH> {
        let o: $other = (*self).$conv();
        Box::new(o)
      }
      fn mode(&self) -> Mode {
        Mode::Sync
      }
    }
  };
}

macro_rules! impl_tx_async {
  ($t:ty, $other:ty, $conv:ident, $clone:expr) => {
    impl TxH for $t {
      fn send(&mut self, p: P) -> Res {
        let id = p.0;
        match bo(<$t>::send(self, p)) {
          Ok(()) => Res::SendOk(id),
          Err(_) => Res::SendClosedDropped(id),
        }
      }
      fn try_send(&mut self, p: P) -> Res {
        let id = p.0;
        try_send_res(id, <$t>::try_send(self, p))
      }
      fn send_cancel(&mut self, p: P) -> Res {
        let id = p.0;
        let mut fut = std::pin::pin!(<$t>::send(self, p));
        match poll_once(fut.as_mut()) {
          Poll::Ready(Ok(())) => Res::SendOk(id),
          Poll::Ready(Err(_)) => Res::SendClosedDropped(id),
          Poll::Pending => {
            sched::yield_point();
            Res::SendCancelled(id)
          }
        }
      }
      fn send_woken_drop(&mut self, p: P) -> Res {
        let id = p.0;
        let mut fut = std::pin::pin!(<$t>::send(self, p));
        match poll_wait_woken(fut.as_mut()) {
          Some(Ok(())) => Res::SendOk(id),
          Some(Err(_)) => Res::SendClosedDropped(id),
          None => Res::SendCancelled(id),
        }
      }
      fn dup(&self) -> Option<Box<dyn TxH>> {
        let f: fn(&$t) -> Option<Box<dyn TxH>> = $clone;
        f(self)
      }
      fn flip(self: Box<Self>) -> Box<dyn TxH> {
        let o: $other = (*self).$conv();
        Box::new(o)
      }
      fn mode(&self) -> Mode {
        Mode::Async
      }
    }
  };
}

macro_rules! impl_rx {
  ($t:ty, $other:ty, $conv:ident, $clone:expr, $probe:expr) => {
    impl RxH for $t {
      fn recv(&mut self) -> Res {
        match <$t>::recv(self) {
          Ok(v) => val(v),
          Err(_) => Res::Disc,
        }
      }
      fn try_recv(&mut self) -> Res {
        try_recv_res(<$t>::try_recv(self))
      }
      fn recv_timeout(&mut self, d: Duration) -> Res {
        match <$t>::recv_timeout(self, d) {
          Ok(v) => val(v),
          Err(fibre::RecvErrorTimeout::Timeout) => Res::Timeout,
          Err(fibre::RecvErrorTimeout::Disconnected) => Res::Disc,
        }
      }
      fn dup(&self) -> Option<Box<dyn RxH>> {
        let f: fn(&$t) -> Option<Box<dyn RxH>> = $clone;
        f(self)
      }
      fn flip(self: Box<Self>) -> Box<dyn RxH> {
        let o: $other = (*self).$conv();
        Box::new(o)
      }
      fn mode(&self) -> Mode {
        Mode::Sync
      }
      fn probe(&self) -> Option<(usize, usize)> {
        let f: fn(&$t) -> Option<(usize, usize)> = $probe;
        f(self)
      }
    }
  };
}

macro_rules! impl_rx_async {
  ($t:ty, $other:ty, $conv:ident, $clone:expr, $probe:expr) => {
    impl RxH for $t {
      fn recv(&mut self) -> Res {
        match bo(<$t>::recv(self)) {
          Ok(v) => val(v),
          Err(_) => Res::Disc,
        }
      }
      fn try_recv(&mut self) -> Res {
        try_recv_res(<$t>::try_recv(self))
      }
      fn recv_timeout(&mut self, _d: Duration) -> Res {
        let mut fut = std::pin::pin!(<$t>::recv(self));
        match poll_twice(fut.as_mut()) {
          Poll::Ready(Ok(v)) => val(v),
          Poll::Ready(Err(_)) => Res::Disc,
          Poll::Pending => Res::Timeout,
        }
      }
      fn recv_cancel(&mut self) -> Res {
        let mut fut = std::pin::pin!(<$t>::recv(self));
        match poll_once(fut.as_mut()) {
          Poll::Ready(Ok(v)) => val(v),
          Poll::Ready(Err(_)) => Res::Disc,
          Poll::Pending => {
            sched::yield_point();
            Res::Cancelled
          }
        }
      }
      fn recv_woken_drop(&mut self) -> Res {
        let mut fut = std::pin::pin!(<$t>::recv(self));
        match poll_wait_woken(fut.as_mut()) {
          Some(Ok(v)) => val(v),
          Some(Err(_)) => Res::Disc,
          None => Res::Cancelled,
        }
      }
      fn recv_repoll(&mut self) -> Res {
        let mut fut = std::pin::pin!(<$t>::recv(self));
        let first = poll_once(fut.as_mut());
        let r = match first {
          Poll::Ready(r) => r,
          Poll::Pending => bo(fut),
        };
        match r {
          Ok(v) => val(v),
          Err(_) => Res::Disc,
        }
      }
      fn dup(&self) -> Option<Box<dyn RxH>> {
        let f: fn(&$t) -> Option<Box<dyn RxH>> = $clone;
        f(self)
      }
      fn flip(self: Box<Self>) -> Box<dyn RxH> {
        let o: $other = (*self).$conv();
        Box::new(o)
      }
      fn mode(&self) -> Mode {
        Mode::Async
      }
      fn probe(&self) -> Option<(usize, usize)> {
        let f: fn(&$t) -> Option<(usize, usize)> = $probe;
        f(self)
      }
    }
  };
}

macro_rules! chan {
  ($st:ty, $at:ty, $sr:ty, $ar:ty, $txc:tt, $rxc:tt) => {
    chan!($st, $at, $sr, $ar, $txc, $rxc, noprobe);
  };
  ($st:ty, $at:ty, $sr:ty, $ar:ty, $txc:tt, $rxc:tt, $pr:tt) => {
    impl_tx!($st, $at, to_async, chan!(@tx $txc));
    impl_tx_async!($at, $st, to_sync, chan!(@tx $txc));
    impl_rx!($sr, $ar, to_async, chan!(@rx $rxc), chan!(@probe $pr));
    impl_rx_async!($ar, $sr, to_sync, chan!(@rx $rxc), chan!(@probe $pr));
  };
  (@probe probe) => { |r| Some((r.len(), r.capacity())) };
  (@probe noprobe) => { |_| None };
  (@tx yes) => { |t| Some(Box::new(t.clone())) };
  (@tx no) => { |_| None };
  (@rx yes) => { |t| Some(Box::new(t.clone())) };
  (@rx no) => { |_| None };
}

chan!(fibre::spsc::BoundedSyncSender<P>, fibre::spsc::BoundedAsyncSender<P>, fibre::spsc::BoundedSyncReceiver<P>, fibre::spsc::BoundedAsyncReceiver<P>, no, no);
chan!(fibre::mpsc::BoundedSyncSender<P>, fibre::mpsc::BoundedAsyncSender<P>, fibre::mpsc::BoundedSyncReceiver<P>, fibre::mpsc::BoundedAsyncReceiver<P>, yes, no);
chan!(fibre::mpsc::UnboundedSyncSender<P>, fibre::mpsc::UnboundedAsyncSender<P>, fibre::mpsc::UnboundedSyncReceiver<P>, fibre::mpsc::UnboundedAsyncReceiver<P>, yes, no);
chan!(fibre::mpmc::Sender<P>, fibre::mpmc::AsyncSender<P>, fibre::mpmc::Receiver<P>, fibre::mpmc::AsyncReceiver<P>, yes, yes, probe);
chan!(fibre::mpmc::UnboundedSyncSender<P>, fibre::mpmc::UnboundedAsyncSender<P>, fibre::mpmc::UnboundedSyncReceiver<P>, fibre::mpmc::UnboundedAsyncReceiver<P>, yes, yes);
chan!(fibre::mpmc::rendezvous::RendezvousSyncSender<P>, fibre::mpmc::rendezvous::RendezvousAsyncSender<P>, fibre::mpmc::rendezvous::RendezvousSyncReceiver<P>, fibre::mpmc::rendezvous::RendezvousAsyncReceiver<P>, yes, yes);
chan!(fibre::spsc::rendezvous::RendezvousSyncSender<P>, fibre::spsc::rendezvous::RendezvousAsyncSender<P>, fibre::spsc::rendezvous::RendezvousSyncReceiver<P>, fibre::spsc::rendezvous::RendezvousAsyncReceiver<P>, no, no);
chan!(fibre::mpsc::rendezvous::RendezvousSyncSender<P>, fibre::mpsc::rendezvous::RendezvousAsyncSender<P>, fibre::mpsc::rendezvous::RendezvousSyncReceiver<P>, fibre::mpsc::rendezvous::RendezvousAsyncReceiver<P>, yes, no);

/// the channel is created through the constructor of the flavour's default handle kind
fn make(base: &str, dflt: Mode, cap: usize) -> (Box<dyn TxH>, Box<dyn RxH>) {
  macro_rules! mk {
    ($sync:expr, $asy:expr) => {
      if dflt == Mode::Sync {
        let (t, r) = $sync;
        (Box::new(t) as Box<dyn TxH>, Box::new(r) as Box<dyn RxH>)
      } else {
        let (t, r) = $asy;
        (Box::new(t) as Box<dyn TxH>, Box::new(r) as Box<dyn RxH>)
      }
    };
  }
  match base {
    "spsc" => mk!(fibre::spsc::bounded_sync::<P>(cap), fibre::spsc::bounded_async::<P>(cap)),
    "mpscb" => mk!(fibre::mpsc::bounded::<P>(cap), fibre::mpsc::bounded_async::<P>(cap)),
    "mpscu" => mk!(fibre::mpsc::unbounded::<P>(), fibre::mpsc::unbounded_async::<P>()),
    "mpmcb" => mk!(fibre::mpmc::bounded::<P>(cap), fibre::mpmc::bounded_async::<P>(cap)),
    "mpmcu" => mk!(fibre::mpmc::unbounded::<P>(), fibre::mpmc::unbounded_async::<P>()),
    "mpmcrv" => mk!(fibre::mpmc::rendezvous::rendezvous::<P>(), fibre::mpmc::rendezvous::rendezvous_async::<P>()),
    "spscrv" => mk!(fibre::spsc::rendezvous::rendezvous::<P>(), fibre::spsc::rendezvous::rendezvous_async::<P>()),
    "mpscrv" => mk!(fibre::mpsc::rendezvous::rendezvous::<P>(), fibre::mpsc::rendezvous::rendezvous_async::<P>()),
    f => panic!("unknown flavour {f}"),
  }
}

fn run_once(sc: &Scenario, policy: Policy, record: bool) -> OneRun {
  for d in DROPS.iter() {
    d.store(0, Ordering::SeqCst);
  }
  reset_run();
  let dflt = if sc.flavour == sc.base { Mode::Sync } else { Mode::Async };
  let (tx0, rx0) = make(&sc.base, dflt, sc.cap);
  // distribute handles: clone for every thread but the last of its side
  let np = sc.threads.iter().filter(|t| t.producer).count();
  let nc = sc.threads.len() - np;
  let mut txs: Vec<Box<dyn TxH>> = Vec::new();
  let mut rxs: Vec<Box<dyn RxH>> = Vec::new();
  for _ in 1..np {
    txs.push(tx0.dup().expect("flavour has a single producer"));
  }
  if np > 0 {
    txs.push(tx0);
  } else {
    drop(tx0);
  }
  for _ in 1..nc {
    rxs.push(rx0.dup().expect("flavour has a single consumer"));
  }
  if nc > 0 {
    rxs.push(rx0);
  } else {
    drop(rx0);
  }
  let results: Arc<Mutex<Vec<Vec<Ev>>>> = Arc::new(Mutex::new(vec![Vec::new(); sc.threads.len()]));
  // receiver handles kept alive past their thread's end (op `K`): the senders are then not released
  // by the teardown, so a sender that should have been woken stays parked and is seen as such
  let stash: Arc<Mutex<Vec<Box<dyn RxH>>>> = Arc::new(Mutex::new(Vec::new()));
  let mut bodies: Vec<Box<dyn FnOnce() + Send>> = Vec::new();
  let mut pi = 0u64;
  for (ti, th) in sc.threads.iter().enumerate() {
    let ops = th.ops.clone();
    let results = results.clone();
    if th.producer {
      let mut tx = txs.pop().unwrap();
      if tx.mode() != th.mode {
        tx = tx.flip();
      }
      let base = (pi + 1) * 100;
      pi += 1;
      bodies.push(Box::new(move || {
        enter_thread(ti);
        let mut seq = 0u64;
        let mut out = Vec::new();
        for (oi, op) in ops.iter().enumerate() {
          set_op(oi);
          match op.as_str() {
            "s" => {
              seq += 1;
              stamp(&mut out, || tx.send(P(base + seq)));
            }
            "ts" => {
              seq += 1;
              stamp(&mut out, || tx.try_send(P(base + seq)));
            }
            "sc" => {
              seq += 1;
              stamp(&mut out, || tx.send_cancel(P(base + seq)));
            }
            "sw" => {
              seq += 1;
              stamp(&mut out, || tx.send_woken_drop(P(base + seq)));
            }
            "y" => std::thread::yield_now(),
            o => panic!("bad producer op {o}"),
          }
          results.lock().unwrap()[ti] = out.clone();
        }
        drop(tx);
        done();
      }));
    } else {
      let mut rx = rxs.pop().unwrap();
      if rx.mode() != th.mode {
        rx = rx.flip();
      }
      let stash = stash.clone();
      bodies.push(Box::new(move || {
        enter_thread(ti);
        let mut keep = false;
        let mut out = Vec::new();
        for (oi, op) in ops.iter().enumerate() {
          set_op(oi);
          match op.as_str() {
            "r" => stamp(&mut out, || rx.recv()),
            "tr" => stamp(&mut out, || rx.try_recv()),
            "rt" => stamp(&mut out, || rx.recv_timeout(Duration::from_micros(20))),
            "rc" => stamp(&mut out, || rx.recv_cancel()),
            "rp" => stamp(&mut out, || rx.recv_repoll()),
            "rw" => stamp(&mut out, || rx.recv_woken_drop()),
            "D" => loop {
              stamp(&mut out, || rx.recv());
              // publish progressively so a deadlocked run still shows what was received
              results.lock().unwrap()[ti] = out.clone();
              if out.last().map(|e| e.res == Res::Disc).unwrap_or(false) {
                break;
              }
            },
            "K" => keep = true,
            "y" => std::thread::yield_now(),
            o => panic!("bad consumer op {o}"),
          }
          results.lock().unwrap()[ti] = out.clone();
        }
        if keep {
          stash.lock().unwrap().push(rx);
        } else {
          drop(rx);
        }
        done();
      }));
    }
  }
  let rr = run(policy, 200_000, record, bodies);
  let results = results.lock().unwrap().clone();
  let mut one = finish_run(sc.threads.len(), rr, results);
  // (at a deadlock every unfinished thread sits in park(): none of them holds a channel lock)
  one.kept_probe = stash.lock().unwrap().first().map(|h| h.probe());
  one
}

/// A run with a kept-alive receiver (`K`) that ends with parked threads is a violation only if a
/// parked thread's wait condition holds in that quiescent state (C05: "parked forever while the
/// operation it is waiting for has become possible"); a sender parked on a full buffer whose
/// receivers are merely idle is a legitimate end of the program.
fn judge_kept(sc: &Scenario, r: &OneRun, parked: &[usize], probe: Option<(usize, usize)>) -> Option<(String, String)> {
  let n = sc.threads.len();
  let Some((len, cap)) = probe else { return stuck_clauses(sc, r, None) };
  let producers_done = (0..n).filter(|&i| sc.threads[i].producer).all(|i| r.done[i]);
  let mut cl: Vec<String> = Vec::new();
  let mut why = Vec::new();
  for &i in parked.iter().filter(|&&i| i < n) {
    let enabled = if sc.threads[i].producer { len < cap } else { len > 0 || producers_done };
    if enabled {
      if cl.is_empty() {
        cl.push("C05:deadlock".into());
      }
      if r.in_bo[i] && !cl.contains(&"C06:missed-wake".to_string()) {
        cl.push("C06:missed-wake".into());
      }
      if !sc.threads[i].producer && len == 0 && !cl.contains(&"C04:no-disc".to_string()) {
        cl.push("C04:no-disc".into());
      }
      if any_cancelled(r) && !cl.contains(&"C06:cancel-swallowed-wake".to_string()) {
        cl.push("C06:cancel-swallowed-wake".into());
      }
      why.push(format!(
        "t{i} ({}{}) is parked for ever although {}",
        if sc.threads[i].producer { "sender" } else { "receiver" },
        if r.in_bo[i] { ", inside block_on" } else { "" },
        if sc.threads[i].producer { format!("the buffer holds {len} of {cap} items") } else if len > 0 { format!("{len} items are buffered") } else { "every sender is gone".to_string() }
      ));
    }
  }
  if cl.is_empty() {
    return None;
  }
  Some((cl.join(","), format!("quiescent state with a live idle receiver: {}; results={}", why.join("; "), fmt_results(&r.results))))
}

/// property monitors over one completed/aborted run; returns (clause[,clause..], detail)
fn judge(sc: &Scenario, r: &OneRun) -> Option<(String, String)> {
  if let (Outcome::Deadlock(parked), Some(probe)) = (&r.outcome, r.kept_probe) {
    return judge_kept(sc, r, parked, probe);
  }
  if r.outcome != Outcome::Completed {
    return stuck_clauses(sc, r, None);
  }
  let mut sent_ok = Vec::new();
  let mut handed_back = Vec::new();
  let mut refused = Vec::new();
  let mut cancelled = Vec::new();
  let mut got = Vec::new();
  let mut drained = false;
  for (ti, th) in sc.threads.iter().enumerate() {
    let mut last_from: std::collections::HashMap<u64, u64> = Default::default();
    let mut seen_disc = false;
    for ev in &r.results[ti] {
      match &ev.res {
        Res::SendOk(id) => sent_ok.push(*id),
        Res::SendFull(id) | Res::SendClosed(id) => handed_back.push(*id),
        Res::SendClosedDropped(id) => refused.push(*id),
        Res::SendCancelled(id) => cancelled.push(*id),
        Res::Val(id) => {
          if seen_disc {
            return Some(("C04:value-after-disc".into(), format!("thread {ti} received {id} after Disconnected")));
          }
          got.push(*id);
          let prod = id / 100;
          if let Some(prev) = last_from.get(&prod) {
            if *prev >= *id {
              return Some(("C02:order".into(), format!("thread {ti} received {id} after {prev} from the same producer")));
            }
          }
          last_from.insert(prod, *id);
        }
        Res::Disc => {
          seen_disc = true;
          if !th.producer {
            drained = true;
          }
        }
        _ => {}
      }
    }
  }
  let mut g = got.clone();
  g.sort();
  for w in g.windows(2) {
    if w[0] == w[1] {
      return Some(("C01:dup".into(), format!("id {} delivered twice", w[0])));
    }
  }
  for id in &got {
    if !sent_ok.contains(id) && !cancelled.contains(id) {
      return Some(("C01:phantom".into(), format!("id {id} received but its send did not report success (handed back: {})", handed_back.contains(id))));
    }
  }
  // every consumer thread ended with a drain to Disconnected => everything accepted was received
  let all_drain = sc.threads.iter().filter(|t| !t.producer).all(|t| t.ops.last().map(|s| s == "D").unwrap_or(false));
  let any_consumer = sc.threads.iter().any(|t| !t.producer);
  if all_drain && any_consumer && drained {
    for id in &sent_ok {
      if !got.contains(id) {
        return Some(("C01:lost".into(), format!("id {id} was accepted (send Ok) but never received although every receiver drained to Disconnected; got={got:?}")));
      }
    }
  }
  // drops: after all handles are gone every id was dropped exactly once unless it was
  // returned to user code (received or handed back; those we forget()) => channel drops = accepted - received
  for id in &refused {
    if got.contains(id) {
      return Some(("C01:phantom".into(), format!("id {id} was received although its send reported Closed")));
    }
  }
  for id in sent_ok.iter().chain(handed_back.iter()).chain(refused.iter()).chain(cancelled.iter()) {
    let d = DROPS[*id as usize % MAXID].load(Ordering::SeqCst);
    let returned = got.contains(id) || handed_back.contains(id);
    if returned && d != 0 {
      return Some(("C09:double-drop".into(), format!("id {id} was returned to the user and also dropped {d}x by the channel")));
    }
    if !returned && d != 1 {
      return Some((if d == 0 { "C09:leak".into() } else { "C09:double-drop".into() }, format!("id {id} stayed in the channel and was dropped {d}x at teardown")));
    }
  }
  None
}

fn main() {
  std::panic::set_hook(Box::new(|_| {}));
  let root = std::env::var("VERIF_REPO").unwrap_or_else(|_| "/repo".to_string());
  let stdin = io::stdin();
  let stdout = io::stdout();
  let mut out = io::BufWriter::new(stdout.lock());
  for line in stdin.lock().lines() {
    let line = line.unwrap();
    if line.trim().is_empty() {
      writeln!(out).unwrap();
      continue;
    }
    let sc = match parse(&line) {
      Ok(sc) => sc,
      Err(e) => {
        writeln!(out, "ERROR bad scenario: {e}").unwrap();
        out.flush().unwrap();
        continue;
      }
    };
    if sc.base == "topic" && !topic::hook_present() {
      // fibre::spmc::topic blocks through std/parking_lot unless hook H2-topic is applied: the
      // scheduler cannot interleave (or even survive) it, so the flavour is skipped, not failed
      writeln!(out, "ok skipped=no-hook runs=0 (fibre::spmc::topic is not routed through the traced primitives in this tree)").unwrap();
      out.flush().unwrap();
      continue;
    }
    let mut steps = 0usize;
    let mut events = 0usize;
    let mut parks = 0usize;
    let mut fail: Option<(String, String, usize, u64, OneRun)> = None;
    let mut first: Option<OneRun> = None;
    for i in 0..sc.runs {
      let seed = sc.seed.wrapping_mul(1_000_003).wrapping_add(i as u64);
      let pct = sc.force.unwrap_or(i % 3 == 2);
      let policy = if pct { Policy::Pct(seed, 3) } else { Policy::Random(seed) };
      let rec = sc.trace || i == 0;
      let (r, verdict) = match sc.base.as_str() {
        "spmc" => {
          let r = spmc::run_once(&sc, policy, rec);
          let v = spmc::judge(&sc, &r);
          (r, v)
        }
        "topic" => {
          let r = topic::run_once(&sc, policy, rec);
          let v = topic::judge(&sc, &r);
          (r, v)
        }
        _ => {
          let r = run_once(&sc, policy, rec);
          let v = judge(&sc, &r);
          (r, v)
        }
      };
      steps += r.steps;
      events += r.events;
      parks += r.parks;
      if let Some((c, d)) = verdict {
        fail = Some((c, d, i, seed, r));
        break;
      }
      if i == 0 {
        first = Some(r);
      }
    }
    let mut lines: Vec<String> = Vec::new();
    macro_rules! emit {
      ($($a:tt)*) => { lines.push(format!($($a)*)) };
    }
    let mut namer = Namer::new(&root);
    match fail {
      Some((c, d, i, seed, r)) => {
        // (a step-limit run has 200000 choices: the head is enough to see who was starved / spinning)
        let mut ch: Vec<String> = r.choices.iter().take(3000).map(|c| c.to_string()).collect();
        if r.choices.len() > 3000 {
          ch.push(format!("...({} choices in total)", r.choices.len()));
        }
        emit!("FAIL {c} run={i} seed={seed} :: {d} :: choices={}", ch.join(","));
        if sc.show_results {
          emit!("results {}", fmt_results(&r.results));
        }
        if sc.trace {
          namer.prime(&r.trace);
          for rec in &r.trace {
            emit!("{}", format_rec(&mut namer, rec));
          }
          emit!("end-trace");
        }
      }
      None => {
        emit!("ok runs={} steps={} events_recorded={} blocking_parks={}", sc.runs, steps, events, parks);
        if sc.show_results {
          emit!("results {}", first.as_ref().map(|r| fmt_results(&r.results)).unwrap_or_default());
        }
        if sc.trace {
          if let Some(r) = first {
            namer.prime(&r.trace);
            for rec in &r.trace {
              emit!("{}", format_rec(&mut namer, rec));
            }
          }
          emit!("end-trace");
        }
      }
    }
    if sc.oneline {
      // everything about this scenario on ONE output line (for line-oriented drivers)
      writeln!(out, "{}", lines.join(" ;; ")).unwrap();
    } else {
      for l in &lines {
        writeln!(out, "{l}").unwrap();
      }
    }
    out.flush().unwrap();
  }
}
