//! k3rv — implementation-side line driver of the K3' rendezvous engine (D2 trace refinement).
//!
//! A thin front end over the scenario runner `scen` (same directory): every case line is turned
//! into a `scen` scenario of the flavour `mpmcrv` / `mpscrv` / `spscrv`, executed by a `scen`
//! child process on the REAL channel under the deterministic scheduler, and scen's answer is
//! re-emitted on ONE line in the format the model driver (`ocaml/eng_k3rv.ml`) reads.  Nothing is
//! judged here: verdicts are scen's monitors (FAIL lines) and the model's replay.
//!
//! case lines:
//!   T <flavour> <seed> <pct|rand> | P: <s|ts>* | C: <r|tr|rt|D>* | ...   one schedule, traced
//!   S <flavour> <seed> <runs> | P: ... | C: ...                           <runs> schedules, monitors only
//!   K <function> <row>*                                                   D3 skeleton row list (echoed)
//! output:
//!   T: `<ok <n> done | FAIL <clause> ...> ;; <flavour> TH S <ops> TH R <ops> ... RES RT <res>* RT <res>* ... T <event>*`
//!      event = tid,kind,var,ord,ordfail,a,b,r,ok ; payload ids are printed as <thread>.<op number>
//!   S: `search ok runs=.. steps=.. parks=..`  |  `FAIL <clause> ...`
//!   K: `skel <function> :: <row> ; <row> ...`
use std::io::{self, BufRead, BufReader, Write};
use std::process::{Child, ChildStdin, ChildStdout, Command, Stdio};

struct Scen {
  _child: Child,
  tx: ChildStdin,
  rx: BufReader<ChildStdout>,
}

impl Scen {
  fn start() -> Scen {
    let me = std::env::current_exe().expect("current_exe");
    let scen = me.parent().expect("exe dir").join("scen");
    let mut child = Command::new(scen)
      .stdin(Stdio::piped())
      .stdout(Stdio::piped())
      .stderr(Stdio::null())
      .spawn()
      .expect("cannot start scen (built from the same crate)");
    let tx = child.stdin.take().unwrap();
    let rx = BufReader::new(child.stdout.take().unwrap());
    Scen { _child: child, tx, rx }
  }

  fn ask(&mut self, line: &str) -> String {
    writeln!(self.tx, "{line}").unwrap();
    self.tx.flush().unwrap();
    let mut out = String::new();
    self.rx.read_line(&mut out).unwrap();
    out.trim_end().to_string()
  }
}

/// `ok:203` -> `ok:<thread of producer 1>.3`
fn conv_res(tok: &str, producers: &[usize]) -> String {
  match tok.split_once(':') {
    Some((k, v)) => match v.parse::<usize>() {
      Ok(id) if id >= 100 && id / 100 - 1 < producers.len() => format!("{k}:{}.{}", producers[id / 100 - 1], id % 100),
      _ => format!("{k}:?"),
    },
    None => tok.to_string(),
  }
}

/// `t0=[ok:101,full:102] t1=[val:101]` -> per thread result lists
fn res_lists(s: &str, n: usize, producers: &[usize]) -> Vec<Vec<String>> {
  let mut out = vec![Vec::new(); n];
  for part in s.split_whitespace() {
    if let Some((t, rest)) = part.split_once("=[") {
      if let Ok(ti) = t.trim_start_matches('t').parse::<usize>() {
        if ti < n {
          let inner = rest.trim_end_matches(']');
          out[ti] = inner.split(',').filter(|x| !x.is_empty()).map(|x| conv_res(x, producers)).collect();
        }
      }
    }
  }
  out
}

/// `t1 cas rendezvous.state#0 SeqCst SeqCst a=0 b=2 r=0 ok=1 @rendezvous.rs:635`
///   -> `t1,cas,rendezvous.state#0,SeqCst,SeqCst,0,2,0,1`
fn conv_ev(l: &str) -> Option<String> {
  let t: Vec<&str> = l.split_whitespace().collect();
  if t.len() < 9 || !t[0].starts_with('t') {
    return None;
  }
  let a = t[5].strip_prefix("a=")?;
  let b = t[6].strip_prefix("b=")?;
  let r = t[7].strip_prefix("r=")?;
  let ok = t[8].strip_prefix("ok=")?;
  Some(format!("{},{},{},{},{},{},{},{},{}", t[0], t[1], t[2], t[3], t[4], a, b, r, ok))
}

fn main() {
  let stdin = io::stdin();
  let stdout = io::stdout();
  let mut out = io::BufWriter::new(stdout.lock());
  let mut scen: Option<Scen> = None;
  for line in stdin.lock().lines() {
    let line = line.unwrap();
    let line = line.trim();
    if line.is_empty() {
      writeln!(out).unwrap();
      continue;
    }
    let parts: Vec<&str> = line.split('|').collect();
    let head: Vec<&str> = parts[0].split_whitespace().collect();
    match head[0] {
      "K" => {
        let f = head.get(1).copied().unwrap_or("?");
        writeln!(out, "skel {f} :: {}", head[2..].join(" ; ")).unwrap();
      }
      "T" | "S" if head.len() >= 4 && matches!(head[1], "mpmcrv" | "mpscrv" | "spscrv") => {
        let s = scen.get_or_insert_with(Scen::start);
        // thread specs, in order: (is producer, ops)
        let mut specs: Vec<(bool, Vec<String>)> = Vec::new();
        for p in &parts[1..] {
          let toks: Vec<&str> = p.split_whitespace().collect();
          if toks.is_empty() {
            continue;
          }
          specs.push((toks[0].starts_with('P'), toks[1..].iter().map(|x| x.to_string()).collect()));
        }
        let threads = specs
          .iter()
          .map(|(p, ops)| format!("{} {}", if *p { "P:" } else { "C:" }, ops.join(" ")))
          .collect::<Vec<_>>()
          .join(" | ");
        if head[0] == "S" {
          let ans = s.ask(&format!("{} 0 {} {} oneline | {}", head[1], head[3], head[2], threads));
          if ans.starts_with("ok ") {
            writeln!(out, "search {ans}").unwrap();
          } else {
            writeln!(out, "{ans}").unwrap();
          }
        } else {
          let ans = s.ask(&format!("{} 0 1 {} trace {} results oneline | {}", head[1], head[2], head[3], threads));
          let segs: Vec<&str> = ans.split(" ;; ").collect();
          let verdict = segs.first().copied().unwrap_or("");
          let mut results = "";
          let mut evs: Vec<String> = Vec::new();
          for sg in &segs[1.min(segs.len())..] {
            if let Some(r) = sg.strip_prefix("results ") {
              results = r;
            } else if let Some(e) = conv_ev(sg) {
              evs.push(e);
            }
          }
          let producers: Vec<usize> = specs.iter().enumerate().filter(|(_, (p, _))| *p).map(|(i, _)| i).collect();
          let rl = res_lists(results, specs.len(), &producers);
          let summary =
            if verdict.starts_with("ok ") { format!("ok {} done", evs.len()) } else { verdict.chars().take(400).collect() };
          let mut th = String::new();
          for (p, ops) in &specs {
            th.push_str(if *p { " TH S" } else { " TH R" });
            for o in ops {
              th.push(' ');
              th.push_str(o);
            }
          }
          let mut rs = String::new();
          for r in &rl {
            rs.push_str(" RT");
            for x in r {
              rs.push(' ');
              rs.push_str(x);
            }
          }
          writeln!(out, "{summary} ;; {}{th} RES{rs} T {}", head[1], evs.join(" ")).unwrap();
        }
      }
      _ => writeln!(out, "DRIVER bad case line").unwrap(),
    }
    out.flush().unwrap();
  }
}
