//! k3spsc — implementation-side line driver of the K3 SPSC engine (D2 trace refinement).
//!
//! A thin front end over the scenario runner `scen` (same directory): every case line is turned
//! into a `scen` scenario, executed by a `scen` child process on the REAL channel under the
//! deterministic scheduler, and scen's answer is re-emitted on ONE line in the format the model
//! driver (`ocaml/eng_k3spsc.ml`) reads.  Nothing is judged here: verdicts are scen's monitors
//! (FAIL lines) and the model's replay.
//!
//! case lines:
//!   T <cap> <seed> <pct|rand> | P: <s|ts>* | C: <r|tr|D>*     one schedule, traced
//!   S <cap> <seed> <runs> | P: ... | C: ...                    <runs> schedules, monitors only
//!   K <function> <row>*                                         D3 skeleton row list (echoed)
//! output:
//!   T: `<ok <n> done | FAIL <clause> ...> ;; <cap> P <ops> C <ops> RP <res>* RC <res>* T <event>*`
//!      event = tid,kind,var,ord,a,r,ok ; results carry model ids (payload id - 100)
//!   S: `search ok runs=.. steps=.. parks=..`  |  `FAIL <clause> ...`
//!   K: `skel <function> :: <row> ; <row> ...`
use std::io::{self, BufRead, BufReader, Write};
use std::process::{Child, ChildStdin, ChildStdout, Command, Stdio};

struct Scen {
  _child: Child,
  tx: ChildStdin,
  rx: BufReader<ChildStdout>,
}

impl Scen {
  fn start() -> Scen {
    let me = std::env::current_exe().expect("current_exe");
    let scen = me.parent().expect("exe dir").join("scen");
    let mut child = Command::new(scen)
      .stdin(Stdio::piped())
      .stdout(Stdio::piped())
      .stderr(Stdio::null())
      .spawn()
      .expect("cannot start scen (built from the same crate)");
    let tx = child.stdin.take().unwrap();
    let rx = BufReader::new(child.stdout.take().unwrap());
    Scen { _child: child, tx, rx }
  }

  fn ask(&mut self, line: &str) -> String {
    writeln!(self.tx, "{line}").unwrap();
    self.tx.flush().unwrap();
    let mut out = String::new();
    self.rx.read_line(&mut out).unwrap();
    out.trim_end().to_string()
  }
}

fn conv_res(tok: &str) -> String {
  match tok.split_once(':') {
    Some((k, v)) => format!("{k}:{}", v.parse::<i64>().map(|x| x - 100).unwrap_or(-1)),
    None => tok.to_string(),
  }
}

fn res_list(s: &str, key: &str) -> Vec<String> {
  // `t0=[ok:101,full:102] t1=[val:101]`
  for part in s.split_whitespace() {
    if let Some(rest) = part.strip_prefix(key) {
      let inner = rest.trim_start_matches('[').trim_end_matches(']');
      return inner.split(',').filter(|x| !x.is_empty()).map(conv_res).collect();
    }
  }
  Vec::new()
}

/// `t1 load shared.tail#0 Acq - a=0 b=0 r=1 ok=1 @shared.rs:153` -> `t1,load,shared.tail#0,Acq,0,1,1`
fn conv_ev(l: &str) -> Option<String> {
  let t: Vec<&str> = l.split_whitespace().collect();
  if t.len() < 9 || !t[0].starts_with('t') {
    return None;
  }
  let a = t[5].strip_prefix("a=")?;
  let r = t[7].strip_prefix("r=")?;
  let ok = t[8].strip_prefix("ok=")?;
  Some(format!("{},{},{},{},{},{},{}", t[0], t[1], t[2], t[3], a, r, ok))
}

fn thread_ops(parts: &[&str], tag: char) -> Vec<String> {
  for p in parts {
    let toks: Vec<&str> = p.split_whitespace().collect();
    if !toks.is_empty() && toks[0].starts_with(tag) {
      return toks[1..].iter().map(|s| s.to_string()).collect();
    }
  }
  Vec::new()
}

fn main() {
  let stdin = io::stdin();
  let stdout = io::stdout();
  let mut out = io::BufWriter::new(stdout.lock());
  let mut scen: Option<Scen> = None;
  for line in stdin.lock().lines() {
    let line = line.unwrap();
    let line = line.trim();
    if line.is_empty() {
      writeln!(out).unwrap();
      continue;
    }
    let parts: Vec<&str> = line.split('|').collect();
    let head: Vec<&str> = parts[0].split_whitespace().collect();
    match head[0] {
      "K" => {
        let f = head.get(1).copied().unwrap_or("?");
        writeln!(out, "skel {f} :: {}", head[2..].join(" ; ")).unwrap();
      }
      "T" | "S" if head.len() >= 4 => {
        let s = scen.get_or_insert_with(Scen::start);
        let threads = parts[1..].iter().map(|p| p.trim()).collect::<Vec<_>>().join(" | ");
        if head[0] == "S" {
          let ans = s.ask(&format!("spsc {} {} {} oneline | {}", head[1], head[3], head[2], threads));
          if ans.starts_with("ok ") {
            writeln!(out, "search {ans}").unwrap();
          } else {
            writeln!(out, "{ans}").unwrap();
          }
        } else {
          let ans = s.ask(&format!("spsc {} 1 {} trace {} results oneline | {}", head[1], head[2], head[3], threads));
          let segs: Vec<&str> = ans.split(" ;; ").collect();
          let verdict = segs.first().copied().unwrap_or("");
          let mut results = "";
          let mut evs: Vec<String> = Vec::new();
          for sg in &segs[1.min(segs.len())..] {
            if let Some(r) = sg.strip_prefix("results ") {
              results = r;
            } else if let Some(e) = conv_ev(sg) {
              evs.push(e);
            }
          }
          let p_ops = thread_ops(&parts[1..], 'P');
          let c_ops = thread_ops(&parts[1..], 'C');
          let summary =
            if verdict.starts_with("ok ") { format!("ok {} done", evs.len()) } else { verdict.chars().take(400).collect() };
          writeln!(
            out,
            "{summary} ;; {} P {} C {} RP {} RC {} T {}",
            head[1],
            p_ops.join(" "),
            c_ops.join(" "),
            res_list(results, "t0=").join(" "),
            res_list(results, "t1=").join(" "),
            evs.join(" ")
          )
          .unwrap();
        }
      }
      _ => writeln!(out, "DRIVER bad case line").unwrap(),
    }
    out.flush().unwrap();
  }
}
