//! k3mpmc — implementation-side line driver of the K3' bounded-MPMC engine (D2 trace refinement).
//!
//! A thin front end over the scenario runner `scen` (same directory): every case line becomes a
//! `scen` scenario of flavour `mpmcb`, executed by a `scen` child process on the REAL channel
//! (fibre::mpmc::bounded, sync handles) under the deterministic scheduler; scen's answer is
//! re-emitted on ONE line in the format the model driver (`ocaml/eng_k3mpmc.ml`) reads.
//! Nothing is judged here: verdicts are scen's monitors (FAIL lines) and the model's replay.
//!
//! case lines:
//!   T <cap> <seed> <pct|rand> | P: <s|ts>* | C: <r|tr|rt|D>* | ...   one schedule, traced
//!   S <cap> <seed> <runs> | P: ... | C: ... | ...                      <runs> schedules, monitors only
//!   K <function> <row>*                                                 D3 skeleton row list (echoed)
//! output:
//!   T: `<ok <n> done | FAIL <clause> ...> ;; <cap> | P s s | C r D || <results> || <event>*`
//!      event = tid,kind,var,ord,ordfail,a,b,r,ok,file   (ALL traced events, lock layer included)
//!   S: `search ok runs=.. steps=.. parks=..`  |  `FAIL <clause> ...`
//!   K: `skel <function> :: <row> ; <row> ...`
use std::io::{self, BufRead, BufReader, Write};
use std::process::{Child, ChildStdin, ChildStdout, Command, Stdio};

struct Scen {
  _child: Child,
  tx: ChildStdin,
  rx: BufReader<ChildStdout>,
}

impl Scen {
  fn start() -> Scen {
    let me = std::env::current_exe().expect("current_exe");
    let scen = me.parent().expect("exe dir").join("scen");
    let mut child = Command::new(scen)
      .stdin(Stdio::piped())
      .stdout(Stdio::piped())
      .stderr(Stdio::null())
      .spawn()
      .expect("cannot start scen (built from the same crate)");
    let tx = child.stdin.take().unwrap();
    let rx = BufReader::new(child.stdout.take().unwrap());
    Scen { _child: child, tx, rx }
  }

  fn ask(&mut self, line: &str) -> String {
    writeln!(self.tx, "{line}").unwrap();
    self.tx.flush().unwrap();
    let mut out = String::new();
    self.rx.read_line(&mut out).unwrap();
    out.trim_end().to_string()
  }
}

/// `t1 cas mutex.state#0 Acq Rlx a=0 b=1 r=0 ok=1 @mutex.rs:72` -> `t1,cas,mutex.state#0,Acq,Rlx,0,1,0,1,mutex.rs`
fn conv_ev(l: &str) -> Option<String> {
  let t: Vec<&str> = l.split_whitespace().collect();
  if t.len() < 9 || !t[0].starts_with('t') {
    return None;
  }
  let a = t[5].strip_prefix("a=")?;
  let b = t[6].strip_prefix("b=")?;
  let r = t[7].strip_prefix("r=")?;
  let ok = t[8].strip_prefix("ok=")?;
  let file = t.get(9).map(|f| f.trim_start_matches('@').split(':').next().unwrap_or("-")).unwrap_or("-");
  Some(format!("{},{},{},{},{},{},{},{},{},{}", t[0], t[1], t[2], t[3], t[4], a, b, r, ok, file))
}

fn main() {
  let stdin = io::stdin();
  let stdout = io::stdout();
  let mut out = io::BufWriter::new(stdout.lock());
  let mut scen: Option<Scen> = None;
  for line in stdin.lock().lines() {
    let line = line.unwrap();
    let line = line.trim();
    if line.is_empty() {
      writeln!(out).unwrap();
      continue;
    }
    let parts: Vec<&str> = line.split('|').collect();
    let head: Vec<&str> = parts[0].split_whitespace().collect();
    match head[0] {
      "K" => {
        let f = head.get(1).copied().unwrap_or("?");
        writeln!(out, "skel {f} :: {}", head[2..].join(" ; ")).unwrap();
      }
      "T" | "S" if head.len() >= 4 => {
        let s = scen.get_or_insert_with(Scen::start);
        let threads = parts[1..].iter().map(|p| p.trim()).collect::<Vec<_>>().join(" | ");
        if head[0] == "S" {
          let ans = s.ask(&format!("mpmcb {} {} {} oneline | {}", head[1], head[3], head[2], threads));
          if ans.starts_with("ok ") {
            writeln!(out, "search {ans}").unwrap();
          } else {
            writeln!(out, "{ans}").unwrap();
          }
        } else {
          let ans = s.ask(&format!("mpmcb {} 1 {} trace {} results oneline | {}", head[1], head[2], head[3], threads));
          let segs: Vec<&str> = ans.split(" ;; ").collect();
          let verdict = segs.first().copied().unwrap_or("");
          let mut results = "";
          let mut evs: Vec<String> = Vec::new();
          for sg in &segs[1.min(segs.len())..] {
            if let Some(r) = sg.strip_prefix("results ") {
              results = r;
            } else if let Some(e) = conv_ev(sg) {
              evs.push(e);
            }
          }
          let progs: Vec<String> = parts[1..]
            .iter()
            .map(|p| {
              let toks: Vec<&str> = p.split_whitespace().collect();
              if toks.is_empty() {
                String::new()
              } else {
                format!("{} {}", if toks[0].starts_with('P') { "P" } else { "C" }, toks[1..].join(" "))
              }
            })
            .filter(|x| !x.is_empty())
            .collect();
          let summary =
            if verdict.starts_with("ok ") { format!("ok {} done", evs.len()) } else { verdict.chars().take(400).collect() };
          writeln!(out, "{summary} ;; {} | {} || {} || {}", head[1], progs.join(" | "), results, evs.join(" ")).unwrap();
        }
      }
      _ => writeln!(out, "DRIVER bad case line").unwrap(),
    }
    out.flush().unwrap();
  }
}
