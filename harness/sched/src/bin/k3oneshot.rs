//! k3oneshot — scenario runner AND implementation-side line driver of the K3 oneshot engine.
//!
//! Runs small multi-threaded programs on the REAL `fibre::oneshot` channel under the deterministic
//! scheduler (hooks H1 + H2: every atomic / mutex access of oneshot/core.rs is a traced event and a
//! yield point), with property monitors, and prints the atomic-event trace for the model replay (D2).
//!
//! stdin, one case per line:
//!   T <cfg> <seed> <pct|rand> [choices=c,c,..] | R: <rop>* | S: <sop> | S: <sop> ...
//!        one schedule, traced.  Thread 0 is the receiver, threads 1.. own one Sender clone each.
//!   S <cfg> <seed> <runs> | R: ... | S: ...          <runs> schedules, monitors only
//!   K <cfg> <function> <row>*                         D3 skeleton row list (echoed for the diff)
//!   (<cfg> is read by the model driver only: 0 = code as it is, 1 = with the proposed F-35 repair)
//! receiver ops: tr = try_recv   rv = sched::block_on(rx.recv())   c = close()      (drop at the end)
//! sender ops:   s = send(v)     d = drop without sending          cs = close(); send(v)
//!   sender thread t sends payload id t.
//! stdout, one line per case:
//!   T: `ok <n> res=<r0>/<r1>/.. [|| MON <clause> :: <detail> :: choices=..] @@ <model case>`
//!      model case = `<scenario> || res=<..> ;; <event> ; <event> ...`
//!      (`ok` = the run ended (completed or aborted); the monitors' verdict is the MON part)
//!   S: `search ok runs=.. steps=.. events=.. parks=..` | `FAIL <clause> run=<i> seed=<s> :: <detail> :: choices=.. [|| FAIL ..]`
//!   K: `skel <function> :: <row> ; <row> ...`
//! results: receiver  v<id> (try_recv Ok) e (Empty) d (Disconnected) V<id> / D (recv future) c1 / c0 (close Ok / CloseError)
//!          sender    ok | sent | closed | full | -
//! monitor clauses: C03:second-send-ok C01:phantom C01:dup C01:failed-op-effect C01:lost-after-disc C04:disc-while-sent
//!   C04:value-after-disc C04:disc-with-live-sender C04:closed-handle C04:send-ok-after-rx-gone C06:deadlock (lost wake)
//!   C06:step-limit C01:panic C09:leak C09:double-drop
use fibre::error::{TryRecvError, TrySendError};
use fibre::oneshot;
use sched::{format_rec, run, Namer, Outcome, Policy};
use std::io::{self, BufRead, Write};
use std::sync::atomic::{AtomicU32, Ordering};
use std::sync::{Arc, Mutex};

const MAXID: usize = 64;
static DROPS: [AtomicU32; MAXID] = [const { AtomicU32::new(0) }; MAXID];

struct P(u64);
impl Drop for P {
  fn drop(&mut self) {
    DROPS[self.0 as usize % MAXID].fetch_add(1, Ordering::SeqCst);
  }
}

struct Scenario {
  rops: Vec<String>,
  sops: Vec<String>,
}

fn parse_threads(parts: &[&str]) -> Result<Scenario, String> {
  let mut rops = None;
  let mut sops = Vec::new();
  for p in parts {
    let toks: Vec<&str> = p.split_whitespace().collect();
    if toks.is_empty() {
      continue;
    }
    match toks[0] {
      "R:" => {
        if rops.is_some() || !sops.is_empty() {
          return Err("exactly one receiver thread, first".into());
        }
        rops = Some(toks[1..].iter().map(|s| s.to_string()).collect::<Vec<_>>());
      }
      "S:" => {
        let op = if toks.len() == 2 { toks[1] } else { "d" };
        if toks.len() > 2 || !matches!(op, "s" | "d" | "cs") {
          return Err("a sender thread has exactly one op of s d cs".into());
        }
        sops.push(op.to_string());
      }
      _ => return Err("bad thread tag".into()),
    }
  }
  let rops = rops.ok_or("no receiver thread")?;
  if rops.iter().any(|o| !matches!(o.as_str(), "tr" | "rv" | "c")) {
    return Err("bad receiver op".into());
  }
  if sops.is_empty() || sops.len() >= MAXID - 1 {
    return Err("need 1..62 sender threads".into());
  }
  Ok(Scenario { rops, sops })
}

struct OneRun {
  outcome: Outcome,
  results: Vec<Vec<String>>,
  drops: Vec<u32>,
  steps: usize,
  parks: usize,
  choices: Vec<usize>,
  trace: Vec<sched::Rec>,
}

type Results = Arc<Mutex<Vec<Vec<String>>>>;

fn push(results: &Results, ti: usize, s: String) {
  results.lock().unwrap()[ti].push(s);
}

fn run_once(sc: &Scenario, policy: Policy, record: bool) -> OneRun {
  for d in DROPS.iter() {
    d.store(0, Ordering::SeqCst);
  }
  let n = sc.sops.len();
  // handles are created (and cloned) before the scheduler starts: untraced, sender_count = n
  let (tx0, rx) = oneshot::oneshot::<P>();
  let mut txs = vec![tx0];
  for _ in 1..n {
    let c = txs[0].clone();
    txs.push(c);
  }
  let results: Results = Arc::new(Mutex::new(vec![Vec::new(); n + 1]));
  let mut bodies: Vec<Box<dyn FnOnce() + Send>> = Vec::new();
  {
    let ops = sc.rops.clone();
    let results = results.clone();
    bodies.push(Box::new(move || {
      let rx = rx;
      for op in &ops {
        let r = match op.as_str() {
          "tr" => match rx.try_recv() {
            Ok(v) => {
              let id = v.0;
              std::mem::forget(v);
              format!("v{id}")
            }
            Err(TryRecvError::Empty) => "e".to_string(),
            Err(TryRecvError::Disconnected) => "d".to_string(),
          },
          "rv" => match sched::block_on(rx.recv()) {
            Ok(v) => {
              let id = v.0;
              std::mem::forget(v);
              format!("V{id}")
            }
            Err(_) => "D".to_string(),
          },
          "c" => match rx.close() {
            Ok(()) => "c1".to_string(),
            Err(_) => "c0".to_string(),
          },
          o => panic!("bad receiver op {o}"),
        };
        push(&results, 0, r);
      }
      drop(rx);
    }));
  }
  for (i, op) in sc.sops.iter().enumerate() {
    let ti = i + 1;
    let tx = txs.remove(0);
    let op = op.clone();
    let results = results.clone();
    bodies.push(Box::new(move || {
      let id = ti as u64;
      let conv = |r: Result<(), TrySendError<P>>| match r {
        Ok(()) => "ok",
        Err(TrySendError::Sent(v)) => {
          std::mem::forget(v);
          "sent"
        }
        Err(TrySendError::Closed(v)) => {
          std::mem::forget(v);
          "closed"
        }
        Err(TrySendError::Full(v)) => {
          std::mem::forget(v);
          "full"
        }
      };
      let r = match op.as_str() {
        "s" => conv(tx.send(P(id))),
        "cs" => {
          let _ = tx.close();
          conv(tx.send(P(id)))
        }
        _ => {
          drop(tx);
          "-"
        }
      };
      push(&results, ti, r.to_string());
    }));
  }
  let rr = run(policy, 20_000, record, bodies);
  let results = results.lock().unwrap().clone();
  let drops = (0..=n).map(|i| DROPS[i].load(Ordering::SeqCst)).collect();
  OneRun { outcome: rr.outcome, results, drops, steps: rr.steps, parks: rr.parks, choices: rr.choices, trace: rr.trace }
}

/// property monitors over one run, judged from the API results and the drop counters alone
fn judge(sc: &Scenario, r: &OneRun) -> Vec<(String, String)> {
  let mut hits = judge1(sc, r).into_iter().collect::<Vec<_>>();
  // C01 reading of the same race: the receiver kept receiving until it observed Disconnected, yet the
  // value whose send reported Ok was never handed to it
  if r.outcome == Outcome::Completed {
    let n = sc.sops.len();
    let oks: Vec<usize> = (1..=n).filter(|t| r.results[*t].first().map(|s| s == "ok").unwrap_or(false)).collect();
    if oks.len() == 1 {
      let mut closed = false;
      let mut got = false;
      let mut disc = false;
      for res in &r.results[0] {
        match res.as_str() {
          "c1" => closed = true,
          s if s.starts_with('v') || s.starts_with('V') => got = true,
          "d" | "D" if !closed && !got => disc = true,
          _ => {}
        }
      }
      if disc && !got {
        hits.push((
          "C01:lost-after-disc".into(),
          format!("the send of id {} reported Ok, the receiver received until it observed Disconnected on its open handle, and the value was never returned to it; receiver results={:?}", oks[0], r.results[0]),
        ));
      }
    }
  }
  hits
}

fn judge1(sc: &Scenario, r: &OneRun) -> Option<(String, String)> {
  let n = sc.sops.len();
  match &r.outcome {
    Outcome::Deadlock(parked) => {
      return Some((
        "C06:deadlock".into(),
        format!("threads {parked:?} parked forever with nobody runnable: the pending recv future was never woken (lost wake); results={:?}", r.results),
      ));
    }
    Outcome::StepLimit => return Some(("C06:step-limit".into(), "schedule exceeded 20000 steps".into())),
    Outcome::Panic(m) => return Some(("C01:panic".into(), m.clone())),
    Outcome::Completed => {}
  }
  let oks: Vec<usize> = (1..=n).filter(|t| r.results[*t].first().map(|s| s == "ok").unwrap_or(false)).collect();
  if oks.len() > 1 {
    return Some(("C03:second-send-ok".into(), format!("sends of threads {oks:?} all reported Ok")));
  }
  for t in 1..=n {
    let res = r.results[t].first().cloned().unwrap_or_default();
    let want_local = sc.sops[t - 1] == "cs";
    if want_local && res != "closed" {
      return Some(("C04:closed-handle".into(), format!("sender {t}: send on a handle whose close() returned Ok answered {res}")));
    }
    if res == "full" {
      return Some(("C01:failed-op-effect".into(), format!("sender {t}: oneshot send answered Full")));
    }
  }
  let sent: Option<u64> = oks.first().map(|t| *t as u64);
  // the receiver's history
  let mut got: Option<u64> = None;
  let mut seen_disc = false;
  let mut closed = false;
  for (k, res) in r.results[0].iter().enumerate() {
    let what = format!("receiver op #{k} ({})", sc.rops[k]);
    let (kind, id) = match res.as_str() {
      "e" => ("empty", 0),
      "d" | "D" => ("disc", 0),
      "c1" => ("c1", 0),
      "c0" => ("c0", 0),
      s if s.starts_with('v') || s.starts_with('V') => ("val", s[1..].parse::<u64>().unwrap_or(999)),
      _ => ("?", 0),
    };
    match kind {
      "val" => {
        if closed {
          return Some(("C04:closed-handle".into(), format!("{what} returned a value on a receiver whose close() had returned Ok")));
        }
        if got.is_some() {
          return Some(("C01:dup".into(), format!("{what} returned id {id}; id {:?} had already been received", got)));
        }
        if Some(id) != sent {
          return Some(("C01:phantom".into(), format!("{what} returned id {id} but the send that reported Ok is {sent:?}")));
        }
        if seen_disc {
          return Some(("C04:value-after-disc".into(), format!("{what} returned id {id} after Disconnected had been reported")));
        }
        got = Some(id);
      }
      "disc" => {
        if !closed {
          if sent.is_some() && got.is_none() {
            // a send reported Ok (now or later) and its value was never handed to this receiver before
            return Some((
              "C04:disc-while-sent".into(),
              format!("{what} reported Disconnected although the send of id {sent:?} reported Ok and its value had not been received; receiver results={:?}", r.results[0]),
            ));
          }
          seen_disc = true;
        }
      }
      "empty" => {
        if closed {
          return Some(("C04:closed-handle".into(), format!("{what} answered Empty on a receiver whose close() had returned Ok")));
        }
      }
      "c1" => {
        if closed {
          return Some(("C04:double-close".into(), format!("{what}: second close() returned Ok")));
        }
        closed = true;
      }
      "c0" => {
        if !closed {
          return Some(("C04:double-close".into(), format!("{what}: first close() returned CloseError")));
        }
      }
      _ => return Some(("C01:panic".into(), format!("unreadable result {res}"))),
    }
  }
  // drops: every payload created was either handed back to user code (received / returned in an
  // error: forgotten there, the channel must not have dropped it) or dropped exactly once by the channel
  for t in 1..=n {
    let res = r.results[t].first().cloned().unwrap_or_default();
    if res == "-" {
      continue;
    }
    let d = r.drops[t];
    let returned = res != "ok" || got == Some(t as u64);
    if returned && d != 0 {
      return Some(("C09:double-drop".into(), format!("id {t} was returned to user code ({res}) and also dropped {d}x by the channel")));
    }
    if !returned && d != 1 {
      return Some((
        if d == 0 { "C09:leak".into() } else { "C09:double-drop".into() },
        format!("id {t} (send Ok, never received) was dropped {d}x by the channel after all handles were gone"),
      ));
    }
  }
  None
}

fn fmt_res(r: &OneRun) -> String {
  r.results.iter().map(|v| if v.is_empty() { "-".to_string() } else { v.join(",") }).collect::<Vec<_>>().join("/")
}

fn fmt_trace(root: &str, r: &OneRun) -> String {
  let mut namer = Namer::new(root);
  namer.prime(&r.trace);
  let evs: Vec<String> = r.trace.iter().map(|rec| format_rec(&mut namer, rec)).collect();
  evs.join(" ; ")
}

fn main() {
  std::panic::set_hook(Box::new(|_| {}));
  let root = std::env::var("VERIF_REPO").unwrap_or_else(|_| "/repo".to_string());
  let stdin = io::stdin();
  let stdout = io::stdout();
  let mut out = io::BufWriter::new(stdout.lock());
  for line in stdin.lock().lines() {
    let line = line.unwrap();
    let line = line.trim();
    if line.is_empty() {
      writeln!(out).unwrap();
      continue;
    }
    let parts: Vec<&str> = line.split('|').collect();
    let head: Vec<&str> = parts[0].split_whitespace().collect();
    match head[0] {
      "K" => {
        let f = head.get(2).copied().unwrap_or("?");
        writeln!(out, "skel {f} :: {}", head[3.min(head.len())..].join(" ; ")).unwrap();
      }
      "T" | "S" if head.len() >= 4 => {
        let sc = match parse_threads(&parts[1..]) {
          Ok(s) => s,
          Err(e) => {
            writeln!(out, "DRIVER bad scenario: {e}").unwrap();
            out.flush().unwrap();
            continue;
          }
        };
        let seed: u64 = head[2].parse().unwrap_or(1);
        let threads = parts[1..].iter().map(|p| p.trim()).collect::<Vec<_>>().join(" | ");
        if head[0] == "S" {
          let runs: usize = head[3].parse().unwrap_or(1);
          let (mut steps, mut events, mut parks) = (0usize, 0usize, 0usize);
          let mut fail = None;
          for i in 0..runs {
            let s = seed.wrapping_mul(1_000_003).wrapping_add(i as u64);
            let policy = if i % 3 == 2 { Policy::Pct(s, 3) } else { Policy::Random(s) };
            let r = run_once(&sc, policy, true);
            steps += r.steps;
            events += r.trace.len();
            parks += r.parks;
            let hits = judge(&sc, &r);
            if !hits.is_empty() {
              fail = Some((hits, i, s, r));
              break;
            }
          }
          match fail {
            Some((hits, i, s, r)) => {
              let ch: Vec<String> = r.choices.iter().map(|c| c.to_string()).collect();
              let all: Vec<String> = hits.iter().map(|(c, d)| format!("FAIL {c} run={i} seed={s} :: {d} :: choices={}", ch.join(","))).collect();
              writeln!(out, "{}", all.join(" || ")).unwrap();
            }
            None => writeln!(out, "search ok runs={runs} steps={steps} events={events} parks={parks}").unwrap(),
          }
        } else {
          let mut choices: Option<Vec<usize>> = None;
          for t in &head[3..] {
            if let Some(c) = t.strip_prefix("choices=") {
              choices = Some(c.split(',').filter(|x| !x.is_empty()).map(|x| x.parse().unwrap_or(0)).collect());
            }
          }
          let policy = match choices {
            Some(c) => Policy::Replay(c, seed),
            None => {
              if head[3] == "pct" {
                Policy::Pct(seed, 3)
              } else {
                Policy::Random(seed)
              }
            }
          };
          let r = run_once(&sc, policy, true);
          let res = fmt_res(&r);
          let ch: Vec<String> = r.choices.iter().map(|c| c.to_string()).collect();
          let mon: String = judge(&sc, &r).iter().map(|(c, d)| format!(" || MON {c} :: {d} :: choices={}", ch.join(","))).collect();
          writeln!(
            out,
            "ok {} res={res}{mon} @@ oneshot {} | {threads} || res={res} ;; {}",
            r.trace.len(),
            head[1],
            fmt_trace(&root, &r)
          )
          .unwrap();
        }
      }
      _ => writeln!(out, "DRIVER bad case line").unwrap(),
    }
    out.flush().unwrap();
  }
}
