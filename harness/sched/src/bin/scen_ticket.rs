//! scen — runs small multi-threaded scenario programs on the REAL fibre channels
//! under the deterministic scheduler, many schedules per program, with
//! property monitors (conservation, order, drops, deadlock, panic).
//!
//! stdin, one scenario per line:
//!   <flavour> <cap> <runs> <seed> [trace] [pct|rand] [results] [oneline] | P: ops | P: ops | C: ops ...
//!   (`pct` / `rand` force that policy for every run instead of the 2:1 mix; `results` adds a
//!    `results t0=[..] t1=[..]` line (API results of the traced run) right after the result line;
//!    `oneline` joins all output lines of the scenario with ` ;; ` into one line;
//!    `rr<k>`: the first run starts with a round-robin prefix in which every thread, in scenario order,
//!    executes k primitive events before the seeded policy takes over (forces "all threads pass their
//!    check before any of them claims" races);
//!    `wide`: payload ids are (producer index + 1) * 1000 + seq instead of * 100, for programs
//!    with up to 999 sends per producer (at most 3 producers: ids stay below MAXID))
//! thread ops: s (send) ts (try_send) r (recv) tr (try_recv) rt (recv_timeout 20us)
//!             D (drain: recv until Disconnected)  y (yield)
//!             flavour mpscb only: tsb<k> (try_send_batch of k items) sb<k> (send_batch)
//!                                 trb<k> (try_recv_batch(k)) rb<k> (recv_batch(k))
//! stdout per scenario:
//!   ok runs=<n> steps=<total> events=<total> done=<completed> ...
//!   FAIL <clause> run=<i> seed=<s> :: <detail> :: choices=<c,c,...>
//! With `trace`, the event trace of the failing (or first) run is printed after
//! the result line, one event per line, terminated by `end-trace`.
use sched::{format_rec, run, Namer, Outcome, Policy};
use std::io::{self, BufRead, Write};
use std::sync::atomic::{AtomicU32, AtomicU64, Ordering};
use std::sync::{Arc, Mutex};
use std::time::Duration;

const MAXID: usize = 4096;
static DROPS: [AtomicU32; MAXID] = [const { AtomicU32::new(0) }; MAXID];

/// logical clock of the occupancy monitor (C03, flavour mpscb): harness code runs while its thread
/// holds the scheduler's baton, so these stamps are totally ordered consistently with the run
static CLOCK: AtomicU64 = AtomicU64::new(0);

#[derive(Debug)]
struct P(u64);
impl Drop for P {
  fn drop(&mut self) {
    DROPS[self.0 as usize % MAXID].fetch_add(1, Ordering::SeqCst);
  }
}

#[derive(Debug, Clone, PartialEq)]
enum Res {
  SendOk(u64),
  SendFull(u64),
  SendClosed(u64),
  /// blocking send failed: SendError carries no value, the channel must drop it (once)
  SendClosedDropped(u64),
  Val(u64),
  Empty,
  Disc,
  Timeout,
}

trait TxH: Send {
  fn send(&mut self, p: P) -> Res;
  fn try_send(&mut self, p: P) -> Res;
  fn dup(&self) -> Option<Box<dyn TxH>>;
  /// one result per item, in item order (batch ops exist for flavour mpscb only)
  fn try_send_batch(&mut self, _ps: Vec<P>) -> Vec<Res> {
    panic!("flavour has no batch send")
  }
  fn send_batch(&mut self, _ps: Vec<P>) -> Vec<Res> {
    panic!("flavour has no batch send")
  }
}
trait RxH: Send {
  fn recv(&mut self) -> Res;
  fn try_recv(&mut self) -> Res;
  fn recv_timeout(&mut self, d: Duration) -> Res;
  fn dup(&self) -> Option<Box<dyn RxH>>;
  /// the values of the batch, or a single Empty / Disc
  fn try_recv_batch(&mut self, _max: usize) -> Vec<Res> {
    panic!("flavour has no batch recv")
  }
  fn recv_batch(&mut self, _max: usize) -> Vec<Res> {
    panic!("flavour has no batch recv")
  }
}

macro_rules! impl_tx {
  ($t:ty, $clone:expr) => {
    impl TxH for $t {
      fn send(&mut self, p: P) -> Res {
        let id = p.0;
        match <$t>::send(self, p) {
          Ok(()) => Res::SendOk(id),
          Err(_) => Res::SendClosedDropped(id),
        }
      }
      fn try_send(&mut self, p: P) -> Res {
        let id = p.0;
        match <$t>::try_send(self, p) {
          Ok(()) => Res::SendOk(id),
          Err(fibre::TrySendError::Full(v)) => {
            std::mem::forget(v);
            DROPS[id as usize % MAXID].fetch_add(0, Ordering::SeqCst);
            Res::SendFull(id)
          }
          Err(fibre::TrySendError::Closed(v)) => {
            std::mem::forget(v);
            Res::SendClosed(id)
          }
          Err(fibre::TrySendError::Sent(v)) => {
            std::mem::forget(v);
            Res::SendClosed(id)
          }
        }
      }
      fn dup(&self) -> Option<Box<dyn TxH>> {
        let f: fn(&$t) -> Option<Box<dyn TxH>> = $clone;
        f(self)
      }
    }
  };
}

macro_rules! impl_rx {
  ($t:ty, $clone:expr) => {
    impl RxH for $t {
      fn recv(&mut self) -> Res {
        match <$t>::recv(self) {
          Ok(v) => {
            let id = v.0;
            std::mem::forget(v);
            Res::Val(id)
          }
          Err(_) => Res::Disc,
        }
      }
      fn try_recv(&mut self) -> Res {
        match <$t>::try_recv(self) {
          Ok(v) => {
            let id = v.0;
            std::mem::forget(v);
            Res::Val(id)
          }
          Err(fibre::TryRecvError::Empty) => Res::Empty,
          Err(fibre::TryRecvError::Disconnected) => Res::Disc,
        }
      }
      fn recv_timeout(&mut self, d: Duration) -> Res {
        match <$t>::recv_timeout(self, d) {
          Ok(v) => {
            let id = v.0;
            std::mem::forget(v);
            Res::Val(id)
          }
          Err(fibre::RecvErrorTimeout::Timeout) => Res::Timeout,
          Err(fibre::RecvErrorTimeout::Disconnected) => Res::Disc,
        }
      }
      fn dup(&self) -> Option<Box<dyn RxH>> {
        let f: fn(&$t) -> Option<Box<dyn RxH>> = $clone;
        f(self)
      }
    }
  };
}

impl_tx!(fibre::spsc::BoundedSyncSender<P>, |_| None);
impl_rx!(fibre::spsc::BoundedSyncReceiver<P>, |_| None);
fn forget_all(ps: Vec<P>) -> Vec<u64> {
  ps.into_iter()
    .map(|p| {
      let id = p.0;
      std::mem::forget(p);
      id
    })
    .collect()
}

impl TxH for fibre::mpsc::BoundedSyncSender<P> {
  fn send(&mut self, p: P) -> Res {
    let id = p.0;
    match fibre::mpsc::BoundedSyncSender::send(self, p) {
      Ok(()) => Res::SendOk(id),
      Err(_) => Res::SendClosedDropped(id),
    }
  }
  fn try_send(&mut self, p: P) -> Res {
    let id = p.0;
    match fibre::mpsc::BoundedSyncSender::try_send(self, p) {
      Ok(()) => Res::SendOk(id),
      Err(fibre::TrySendError::Full(v)) => {
        std::mem::forget(v);
        Res::SendFull(id)
      }
      Err(fibre::TrySendError::Closed(v)) | Err(fibre::TrySendError::Sent(v)) => {
        std::mem::forget(v);
        Res::SendClosed(id)
      }
    }
  }
  fn dup(&self) -> Option<Box<dyn TxH>> {
    Some(Box::new(self.clone()))
  }
  fn try_send_batch(&mut self, ps: Vec<P>) -> Vec<Res> {
    let ids: Vec<u64> = ps.iter().map(|p| p.0).collect();
    match fibre::mpsc::BoundedSyncSender::try_send_batch(self, ps) {
      Ok(n) => ids[..n].iter().map(|i| Res::SendOk(*i)).collect(),
      Err(e) => {
        let closed = matches!(e.reason, fibre::error::BatchSendErrorReason::Closed);
        let back = forget_all(e.unsent);
        let mut out: Vec<Res> = ids[..e.sent].iter().map(|i| Res::SendOk(*i)).collect();
        out.extend(back.into_iter().map(|i| if closed { Res::SendClosed(i) } else { Res::SendFull(i) }));
        out
      }
    }
  }
  fn send_batch(&mut self, ps: Vec<P>) -> Vec<Res> {
    let ids: Vec<u64> = ps.iter().map(|p| p.0).collect();
    match fibre::mpsc::BoundedSyncSender::send_batch(self, ps) {
      Ok(n) => ids[..n].iter().map(|i| Res::SendOk(*i)).collect(),
      Err(e) => {
        let back = forget_all(e.unsent);
        let mut out: Vec<Res> = ids[..e.sent].iter().map(|i| Res::SendOk(*i)).collect();
        out.extend(back.into_iter().map(Res::SendClosed));
        out
      }
    }
  }
}

fn vals(v: Vec<P>) -> Vec<Res> {
  forget_all(v).into_iter().map(Res::Val).collect()
}

impl RxH for fibre::mpsc::BoundedSyncReceiver<P> {
  fn recv(&mut self) -> Res {
    match fibre::mpsc::BoundedSyncReceiver::recv(self) {
      Ok(v) => {
        let id = v.0;
        std::mem::forget(v);
        Res::Val(id)
      }
      Err(_) => Res::Disc,
    }
  }
  fn try_recv(&mut self) -> Res {
    match fibre::mpsc::BoundedSyncReceiver::try_recv(self) {
      Ok(v) => {
        let id = v.0;
        std::mem::forget(v);
        Res::Val(id)
      }
      Err(fibre::TryRecvError::Empty) => Res::Empty,
      Err(fibre::TryRecvError::Disconnected) => Res::Disc,
    }
  }
  fn recv_timeout(&mut self, d: Duration) -> Res {
    match fibre::mpsc::BoundedSyncReceiver::recv_timeout(self, d) {
      Ok(v) => {
        let id = v.0;
        std::mem::forget(v);
        Res::Val(id)
      }
      Err(fibre::RecvErrorTimeout::Timeout) => Res::Timeout,
      Err(fibre::RecvErrorTimeout::Disconnected) => Res::Disc,
    }
  }
  fn dup(&self) -> Option<Box<dyn RxH>> {
    None
  }
  fn try_recv_batch(&mut self, max: usize) -> Vec<Res> {
    match fibre::mpsc::BoundedSyncReceiver::try_recv_batch(self, max) {
      Ok(v) => vals(v),
      Err(fibre::TryRecvError::Empty) => vec![Res::Empty],
      Err(fibre::TryRecvError::Disconnected) => vec![Res::Disc],
    }
  }
  fn recv_batch(&mut self, max: usize) -> Vec<Res> {
    match fibre::mpsc::BoundedSyncReceiver::recv_batch(self, max) {
      Ok(v) => vals(v),
      Err(_) => vec![Res::Disc],
    }
  }
}
impl_tx!(fibre::mpsc::UnboundedSyncSender<P>, |t| Some(Box::new(t.clone())));
impl_rx!(fibre::mpsc::UnboundedSyncReceiver<P>, |_| None);
impl_tx!(fibre::mpmc::Sender<P>, |t| Some(Box::new(t.clone())));
impl_rx!(fibre::mpmc::Receiver<P>, |t| Some(Box::new(t.clone())));
impl_tx!(fibre::mpmc::UnboundedSyncSender<P>, |t| Some(Box::new(t.clone())));
impl_rx!(fibre::mpmc::UnboundedSyncReceiver<P>, |t| Some(Box::new(t.clone())));
impl_tx!(fibre::mpmc::rendezvous::RendezvousSyncSender<P>, |t| Some(Box::new(t.clone())));
impl_rx!(fibre::mpmc::rendezvous::RendezvousSyncReceiver<P>, |t| Some(Box::new(t.clone())));
impl_tx!(fibre::spsc::rendezvous::RendezvousSyncSender<P>, |_| None);
impl_rx!(fibre::spsc::rendezvous::RendezvousSyncReceiver<P>, |_| None);
impl_tx!(fibre::mpsc::rendezvous::RendezvousSyncSender<P>, |t| Some(Box::new(t.clone())));
impl_rx!(fibre::mpsc::rendezvous::RendezvousSyncReceiver<P>, |_| None);

fn make(flavour: &str, cap: usize) -> (Box<dyn TxH>, Box<dyn RxH>) {
  match flavour {
    "spsc" => {
      let (t, r) = fibre::spsc::bounded_sync::<P>(cap);
      (Box::new(t), Box::new(r))
    }
    "mpscb" => {
      let (t, r) = fibre::mpsc::bounded::<P>(cap);
      (Box::new(t), Box::new(r))
    }
    "mpscu" => {
      let (t, r) = fibre::mpsc::unbounded::<P>();
      (Box::new(t), Box::new(r))
    }
    "mpmcb" => {
      let (t, r) = fibre::mpmc::bounded::<P>(cap);
      (Box::new(t), Box::new(r))
    }
    "mpmcu" => {
      let (t, r) = fibre::mpmc::unbounded::<P>();
      (Box::new(t), Box::new(r))
    }
    "mpmcrv" => {
      let (t, r) = fibre::mpmc::rendezvous::rendezvous::<P>();
      (Box::new(t), Box::new(r))
    }
    "spscrv" => {
      let (t, r) = fibre::spsc::rendezvous::rendezvous::<P>();
      (Box::new(t), Box::new(r))
    }
    "mpscrv" => {
      let (t, r) = fibre::mpsc::rendezvous::rendezvous::<P>();
      (Box::new(t), Box::new(r))
    }
    f => panic!("unknown flavour {f}"),
  }
}

#[derive(Clone)]
struct ThreadSpec {
  producer: bool,
  ops: Vec<String>,
}

struct Scenario {
  flavour: String,
  cap: usize,
  runs: usize,
  seed: u64,
  trace: bool,
  force: Option<bool>,
  show_results: bool,
  oneline: bool,
  idbase: u64,
  rr: usize,
  threads: Vec<ThreadSpec>,
}

fn parse(line: &str) -> Scenario {
  let parts: Vec<&str> = line.split('|').collect();
  let head: Vec<&str> = parts[0].split_whitespace().collect();
  let mut threads = Vec::new();
  for p in &parts[1..] {
    let toks: Vec<&str> = p.split_whitespace().collect();
    if toks.is_empty() {
      continue;
    }
    threads.push(ThreadSpec { producer: toks[0].starts_with('P'), ops: toks[1..].iter().map(|s| s.to_string()).collect() });
  }
  Scenario {
    flavour: head[0].to_string(),
    cap: head[1].parse().unwrap(),
    runs: head[2].parse().unwrap(),
    seed: head[3].parse().unwrap(),
    trace: head.get(4) == Some(&"trace"),
    force: if head[4.min(head.len())..].contains(&"pct") { Some(true) } else if head[4.min(head.len())..].contains(&"rand") { Some(false) } else { None },
    show_results: head[4.min(head.len())..].contains(&"results"),
    oneline: head[4.min(head.len())..].contains(&"oneline"),
    idbase: if head[4.min(head.len())..].contains(&"wide") { 1000 } else { 100 },
    rr: head[4.min(head.len())..]
      .iter()
      .find_map(|t| t.strip_prefix("rr").and_then(|k| k.parse::<usize>().ok()))
      .unwrap_or(0),
    threads,
  }
}

struct OneRun {
  outcome: Outcome,
  results: Vec<Vec<Res>>,
  steps: usize,
  events: usize,
  parks: usize,
  choices: Vec<usize>,
  trace: Vec<sched::Rec>,
  /// (stamp, +1) at the return of every successful send; (stamp taken BEFORE the call, -k) for every
  /// receive call that returned k values
  occ: Vec<(u64, i64)>,
}

fn run_once(sc: &Scenario, policy: Policy, record: bool) -> OneRun {
  for d in DROPS.iter() {
    d.store(0, Ordering::SeqCst);
  }
  let (tx0, rx0) = make(&sc.flavour, sc.cap);
  // distribute handles: clone for every thread but the last of its side
  let np = sc.threads.iter().filter(|t| t.producer).count();
  let nc = sc.threads.len() - np;
  let mut txs: Vec<Box<dyn TxH>> = Vec::new();
  let mut rxs: Vec<Box<dyn RxH>> = Vec::new();
  for _ in 1..np {
    txs.push(tx0.dup().expect("flavour has a single producer"));
  }
  if np > 0 {
    txs.push(tx0);
  } else {
    drop(tx0);
  }
  for _ in 1..nc {
    rxs.push(rx0.dup().expect("flavour has a single consumer"));
  }
  if nc > 0 {
    rxs.push(rx0);
  } else {
    drop(rx0);
  }
  let results: Arc<Mutex<Vec<Vec<Res>>>> = Arc::new(Mutex::new(vec![Vec::new(); sc.threads.len()]));
  let occ: Arc<Mutex<Vec<(u64, i64)>>> = Arc::new(Mutex::new(Vec::new()));
  let mut bodies: Vec<Box<dyn FnOnce() + Send>> = Vec::new();
  let mut pi = 0u64;
  for (ti, th) in sc.threads.iter().enumerate() {
    let ops = th.ops.clone();
    let results = results.clone();
    let occ = occ.clone();
    if th.producer {
      let mut tx = txs.pop().unwrap();
      let base = (pi + 1) * sc.idbase;
      pi += 1;
      bodies.push(Box::new(move || {
        let mut seq = 0u64;
        let mut out: Vec<Res> = Vec::new();
        let sent = |r: &Res| {
          if matches!(r, Res::SendOk(_)) {
            occ.lock().unwrap().push((CLOCK.fetch_add(1, Ordering::SeqCst), 1));
          }
        };
        for op in &ops {
          match op.as_str() {
            "s" => {
              seq += 1;
              let r = tx.send(P(base + seq));
              sent(&r);
              out.push(r);
            }
            "ts" => {
              seq += 1;
              let r = tx.try_send(P(base + seq));
              sent(&r);
              out.push(r);
            }
            "y" => std::thread::yield_now(),
            o if o.starts_with("tsb") || o.starts_with("sb") => {
              let blocking = o.starts_with("sb");
              let k: usize = o[if blocking { 2 } else { 3 }..].parse().expect("batch size");
              let ps: Vec<P> = (0..k)
                .map(|_| {
                  seq += 1;
                  P(base + seq)
                })
                .collect();
              let rs = if blocking { tx.send_batch(ps) } else { tx.try_send_batch(ps) };
              for r in rs {
                sent(&r);
                out.push(r);
              }
            }
            o => panic!("bad producer op {o}"),
          }
        }
        results.lock().unwrap()[ti] = out;
        drop(tx);
      }));
    } else {
      let mut rx = rxs.pop().unwrap();
      bodies.push(Box::new(move || {
        let mut out = Vec::new();
        let stamp = || CLOCK.fetch_add(1, Ordering::SeqCst);
        let took = |st: u64, r: Res| {
          if matches!(r, Res::Val(_)) {
            occ.lock().unwrap().push((st, -1));
          }
          r
        };
        for op in &ops {
          match op.as_str() {
            "r" => {
              let st = stamp();
              out.push(took(st, rx.recv()))
            }
            "tr" => {
              let st = stamp();
              out.push(took(st, rx.try_recv()))
            }
            "rt" => {
              let st = stamp();
              out.push(took(st, rx.recv_timeout(Duration::from_micros(20))))
            }
            "D" => loop {
              let st = stamp();
              let r = took(st, rx.recv());
              let stop = r == Res::Disc;
              out.push(r);
              if stop {
                break;
              }
            },
            "y" => std::thread::yield_now(),
            o if o.starts_with("trb") || o.starts_with("rb") => {
              let blocking = o.starts_with("rb");
              let k: usize = o[if blocking { 2 } else { 3 }..].parse().expect("batch max");
              let st = stamp();
              let rs = if blocking { rx.recv_batch(k) } else { rx.try_recv_batch(k) };
              for r in rs {
                out.push(took(st, r));
              }
            }
            o => panic!("bad consumer op {o}"),
          }
          // publish progressively so a deadlocked run still shows what was received
          results.lock().unwrap()[ti] = out.clone();
        }
        results.lock().unwrap()[ti] = out;
        drop(rx);
      }));
    }
  }
  let rr = run(policy, 200_000, record, bodies);
  let results = results.lock().unwrap().clone();
  let mut occ = occ.lock().unwrap().clone();
  occ.sort();
  OneRun { outcome: rr.outcome, results, steps: rr.steps, events: rr.trace.len(), parks: rr.parks, choices: rr.choices, trace: rr.trace, occ }
}

/// property monitors over one completed/aborted run; returns (clause, detail)
fn judge(sc: &Scenario, r: &OneRun) -> Option<(String, String)> {
  match &r.outcome {
    Outcome::Deadlock(parked) => {
      return Some(("C05:deadlock".into(), format!("threads {parked:?} parked forever, nobody runnable; results={:?}", r.results)));
    }
    Outcome::StepLimit => return Some(("C05:step-limit".into(), "schedule exceeded 200000 steps (livelock/unbounded spin)".into())),
    Outcome::Panic(m) => return Some(("C01:panic".into(), m.clone())),
    Outcome::Completed => {}
  }
  // C03 (mpsc bounded): at every instant, sends that have RETURNED Ok minus values handed out by receive
  // calls that had STARTED is a lower bound of the number of buffered values, hence must be <= cap
  if sc.flavour == "mpscb" {
    let mut level = 0i64;
    for (_, d) in &r.occ {
      level += d;
      if level > sc.cap.max(1) as i64 {
        return Some(("C03:occupancy".into(), format!("{level} values were accepted (send returned Ok) and not yet handed to any started receive: capacity {} exceeded", sc.cap)));
      }
    }
  }
  let mut sent_ok = Vec::new();
  let mut handed_back = Vec::new();
  let mut refused = Vec::new();
  let mut got = Vec::new();
  let mut drained = false;
  for (ti, th) in sc.threads.iter().enumerate() {
    let mut last_from: std::collections::HashMap<u64, u64> = Default::default();
    let mut seen_disc = false;
    for res in &r.results[ti] {
      match res {
        Res::SendOk(id) => sent_ok.push(*id),
        Res::SendFull(id) | Res::SendClosed(id) => handed_back.push(*id),
        Res::SendClosedDropped(id) => refused.push(*id),
        Res::Val(id) => {
          if seen_disc {
            return Some(("C04:value-after-disc".into(), format!("thread {ti} received {id} after Disconnected")));
          }
          got.push(*id);
          let prod = id / sc.idbase;
          if let Some(prev) = last_from.get(&prod) {
            if *prev >= *id {
              return Some(("C02:order".into(), format!("thread {ti} received {id} after {prev} from the same producer")));
            }
          }
          last_from.insert(prod, *id);
        }
        Res::Disc => {
          seen_disc = true;
          if !th.producer {
            drained = true;
          }
        }
        _ => {}
      }
    }
  }
  let mut g = got.clone();
  g.sort();
  for w in g.windows(2) {
    if w[0] == w[1] {
      return Some(("C01:dup".into(), format!("id {} delivered twice", w[0])));
    }
  }
  for id in &got {
    if !sent_ok.contains(id) {
      return Some(("C01:phantom".into(), format!("id {id} received but its send did not report success (handed back: {})", handed_back.contains(id))));
    }
  }
  // every consumer thread ended with a drain to Disconnected => everything accepted was received
  let all_drain = sc.threads.iter().filter(|t| !t.producer).all(|t| t.ops.last().map(|s| s == "D").unwrap_or(false));
  let any_consumer = sc.threads.iter().any(|t| !t.producer);
  if all_drain && any_consumer && drained {
    for id in &sent_ok {
      if !got.contains(id) {
        return Some(("C01:lost".into(), format!("id {id} was accepted (send Ok) but never received although every receiver drained to Disconnected; got={got:?}")));
      }
    }
  }
  // drops: after all handles are gone every id was dropped exactly once unless it was
  // returned to user code (received or handed back; those we forget()) => channel drops = accepted - received
  for id in &refused {
    if got.contains(id) {
      return Some(("C01:phantom".into(), format!("id {id} was received although its send reported Closed")));
    }
  }
  for id in sent_ok.iter().chain(handed_back.iter()).chain(refused.iter()) {
    let d = DROPS[*id as usize % MAXID].load(Ordering::SeqCst);
    let returned = got.contains(id) || handed_back.contains(id);
    if returned && d != 0 {
      return Some(("C09:double-drop".into(), format!("id {id} was returned to the user and also dropped {d}x by the channel")));
    }
    if !returned && d != 1 {
      return Some((if d == 0 { "C09:leak".into() } else { "C09:double-drop".into() }, format!("id {id} stayed in the channel and was dropped {d}x at teardown")));
    }
  }
  None
}

fn fmt_results(rs: &[Vec<Res>]) -> String {
  let one = |r: &Res| match r {
    Res::SendOk(i) => format!("ok:{i}"),
    Res::SendFull(i) => format!("full:{i}"),
    Res::SendClosed(i) => format!("closed:{i}"),
    Res::SendClosedDropped(i) => format!("gone:{i}"),
    Res::Val(i) => format!("val:{i}"),
    Res::Empty => "empty".to_string(),
    Res::Disc => "disc".to_string(),
    Res::Timeout => "timeout".to_string(),
  };
  rs.iter().enumerate().map(|(t, v)| format!("t{t}=[{}]", v.iter().map(one).collect::<Vec<_>>().join(","))).collect::<Vec<_>>().join(" ")
}

fn main() {
  std::panic::set_hook(Box::new(|_| {}));
  let root = std::env::var("VERIF_REPO").unwrap_or_else(|_| "/repo".to_string());
  let stdin = io::stdin();
  let stdout = io::stdout();
  let mut out = io::BufWriter::new(stdout.lock());
  for line in stdin.lock().lines() {
    let line = line.unwrap();
    if line.trim().is_empty() {
      writeln!(out).unwrap();
      continue;
    }
    let sc = parse(&line);
    let mut steps = 0usize;
    let mut events = 0usize;
    let mut parks = 0usize;
    let mut fail: Option<(String, String, usize, u64, OneRun)> = None;
    let mut first: Option<OneRun> = None;
    for i in 0..sc.runs {
      let seed = sc.seed.wrapping_mul(1_000_003).wrapping_add(i as u64);
      let pct = sc.force.unwrap_or(i % 3 == 2);
      let policy = if sc.rr > 0 {
        let mut list = Vec::new();
        for t in 0..sc.threads.len() {
          list.extend(std::iter::repeat(t).take(sc.rr));
        }
        Policy::Replay(list, seed)
      } else if pct {
        Policy::Pct(seed, 3)
      } else {
        Policy::Random(seed)
      };
      let r = run_once(&sc, policy, sc.trace || i == 0);
      steps += r.steps;
      events += r.events;
      parks += r.parks;
      if let Some((c, d)) = judge(&sc, &r) {
        fail = Some((c, d, i, seed, r));
        break;
      }
      if i == 0 {
        first = Some(r);
      }
    }
    let mut lines: Vec<String> = Vec::new();
    macro_rules! emit {
      ($($a:tt)*) => { lines.push(format!($($a)*)) };
    }
    let mut namer = Namer::new(&root);
    match fail {
      Some((c, d, i, seed, r)) => {
        let ch: Vec<String> = r.choices.iter().map(|c| c.to_string()).collect();
        emit!("FAIL {c} run={i} seed={seed} :: {d} :: choices={}", ch.join(","));
        if sc.show_results {
          emit!("results {}", fmt_results(&r.results));
        }
        if sc.trace {
          namer.prime(&r.trace);
          for rec in &r.trace {
            emit!("{}", format_rec(&mut namer, rec));
          }
          emit!("end-trace");
        }
      }
      None => {
        emit!("ok runs={} steps={} events_recorded={} blocking_parks={}", sc.runs, steps, events, parks);
        if sc.show_results {
          emit!("results {}", first.as_ref().map(|r| fmt_results(&r.results)).unwrap_or_default());
        }
        if sc.trace {
          if let Some(r) = first {
            namer.prime(&r.trace);
            for rec in &r.trace {
              emit!("{}", format_rec(&mut namer, rec));
            }
          }
          emit!("end-trace");
        }
      }
    }
    if sc.oneline {
      // everything about this scenario on ONE output line (for line-oriented drivers)
      writeln!(out, "{}", lines.join(" ;; ")).unwrap();
    } else {
      for l in &lines {
        writeln!(out, "{l}").unwrap();
      }
    }
    out.flush().unwrap();
  }
}
