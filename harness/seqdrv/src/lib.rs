//! seqdrv — shared helpers for the per-engine line drivers in src/bin/.
//! Each driver reads one case per line on stdin and prints one result line per
//! case; formats mirror /verif/ocaml/eng_<engine>.ml exactly; `check` diffs them.
use std::io::{self, BufRead, Write};

pub fn main_loop(run: impl Fn(&[&str]) -> String) {
  // panics inside an op are an *output*, not a crash: keep the default hook quiet
  std::panic::set_hook(Box::new(|_| {}));
  let stdin = io::stdin();
  let stdout = io::stdout();
  let mut out = io::BufWriter::new(stdout.lock());
  for line in stdin.lock().lines() {
    let line = line.unwrap();
    let toks: Vec<&str> = line.split_whitespace().collect();
    let res = if toks.is_empty() { String::new() } else { run(&toks) };
    writeln!(out, "{res}").unwrap();
    out.flush().unwrap();
  }
  out.flush().unwrap();
}
