//! E-CHANOPS-mpmcb (exe `mpmcb`): drive the bounded MPMC channel of fibre
//! (`fibre::mpmc::{bounded, bounded_async}` = channels/src/mpmc_v2/{mod,core,sync_impl,async_impl}.rs)
//! through its public API, one op per token group; output format mirrors ocaml/eng_mpmcb.ml.
//!
//! case:   <cap> <s|a> <fixbits> op*          (fixbits are for the model only; ignored here)
//! ops:    ts H | tr H | sd H | rv H | rt H | cl H H2 | cs H | dr H | cv H H2 | ob H
//!         ms F H | mr F H | po F W | df F
//!         tsb H N | tsm H N | sb H N | sbm H N | trb H M | trm H M | rb H M | rbm H M
//!         msb F H N | msm F H N | mrb F H M | mrm F H M | pn H W
//! output: one group per op joined by " ; ": <result> [w<waker>]* [d<payload>]* [BAD]
//!
//! Payload ids are allocated by a per-case counter (the model does the same), wakers are counting
//! wakers keyed by id, every payload logs its drop.  Futures live in manually managed heap cells:
//! `df` runs the real `Drop` (drop_in_place) but the memory is released only at the end of the case,
//! so that a later access of the channel to a dead future's state byte (finding F-06) is not a real
//! use-after-free here but an observable write: the cell's bytes are snapshotted at drop and
//! compared after every op (`BAD`).
//! Futures borrow their handle (`&'a AsyncSender<T>`); handles are boxed (stable address) and the
//! borrow's lifetime is transmuted to 'static.  The driver refuses (`borrowed`) to drop/convert a
//! handle while a live future borrows it, which is what the borrow checker enforces for real users.
use fibre::error::{BatchSendErrorReason, RecvErrorTimeout, TryRecvError, TrySendError};
use fibre::mpmc::{self, AsyncReceiver, AsyncSender, Receiver, Sender};
use futures_util::Stream;
use std::alloc::{alloc_zeroed, dealloc, Layout};
use std::cell::RefCell;
use std::collections::BTreeMap;
use std::future::Future;
use std::panic::{catch_unwind, AssertUnwindSafe};
use std::pin::Pin;
use std::sync::mpsc as std_mpsc;
use std::sync::Arc;
use std::task::{Context, Poll, Wake, Waker};
use std::time::Duration;

thread_local! {
  static DROPLOG: RefCell<Vec<u32>> = RefCell::new(Vec::new());
  static WAKELOG: RefCell<Vec<u32>> = RefCell::new(Vec::new());
  static HELD: RefCell<Vec<P>> = RefCell::new(Vec::new());
}

/// payload: an id with an observable Drop
struct P(u32);
impl Drop for P {
  fn drop(&mut self) {
    let id = self.0;
    DROPLOG.with(|d| d.borrow_mut().push(id));
  }
}
/// a value handed back to the caller (receive result or inside an error): kept until the case ends
fn hold(p: P) -> u32 {
  let id = p.0;
  HELD.with(|h| h.borrow_mut().push(p));
  id
}
fn hold_all(v: Vec<P>) -> String {
  let mut s = String::new();
  for p in v {
    s.push_str(&format!(" {}", hold(p)));
  }
  s
}

struct CountWaker(u32);
impl Wake for CountWaker {
  fn wake(self: Arc<Self>) {
    let id = self.0;
    WAKELOG.with(|w| w.borrow_mut().push(id));
  }
}
fn waker(id: u32) -> Waker {
  Waker::from(Arc::new(CountWaker(id)))
}

enum H {
  Tx(Sender<P>),
  Rx(Receiver<P>),
  ATx(AsyncSender<P>),
  ARx(AsyncReceiver<P>),
}
struct HEnt {
  h: Option<Box<H>>, // None = dropped / converted away
  closed_called: bool,
  nfut: usize,
}

/// a future in a manually managed heap cell
struct FEnt {
  ptr: *mut u8,
  layout: Layout,
  poll: Box<dyn FnMut(&mut Context<'_>) -> Option<String>>,
  drop_it: Box<dyn FnMut()>,
  /// the caller-side vector of the `_mut` forms (dropped = handed back to the caller when the future goes)
  side: Option<*mut Vec<P>>,
  h: usize,
  alive: bool,
  done: bool,
  snap: Vec<u8>,
}

fn cell<F: Future + 'static>(
  fut: F,
  h: usize,
  side: Option<*mut Vec<P>>,
  show: impl Fn(F::Output) -> String + 'static,
) -> FEnt {
  let layout = Layout::new::<F>();
  let ptr = if layout.size() == 0 { std::ptr::NonNull::<F>::dangling().as_ptr() } else { unsafe { alloc_zeroed(layout) as *mut F } };
  unsafe { std::ptr::write(ptr, fut) };
  let p2 = ptr;
  FEnt {
    ptr: ptr as *mut u8,
    layout,
    poll: Box::new(move |cx| match unsafe { Pin::new_unchecked(&mut *ptr) }.poll(cx) {
      Poll::Pending => None,
      Poll::Ready(o) => Some(show(o)),
    }),
    drop_it: Box::new(move || unsafe { std::ptr::drop_in_place(p2) }),
    side,
    h,
    alive: true,
    done: false,
    snap: Vec::new(),
  }
}
fn bytes(f: &FEnt) -> Vec<u8> {
  (0..f.layout.size()).map(|i| unsafe { std::ptr::read_volatile(f.ptr.add(i)) }).collect()
}

struct Case {
  hs: BTreeMap<usize, HEnt>,
  fs: BTreeMap<usize, FEnt>,
  next: u32,
}

impl Case {
  fn fresh(&mut self) -> P {
    let p = P(self.next);
    self.next += 1;
    p
  }
  fn fresh_n(&mut self, n: usize) -> Vec<P> {
    (0..n).map(|_| self.fresh()).collect()
  }
  fn live(&self, h: usize) -> Option<&H> {
    self.hs.get(&h).and_then(|e| e.h.as_deref())
  }
  fn id_used(&self, h: usize) -> bool {
    self.hs.contains_key(&h)
  }
}

fn obs(len: usize, e: bool, f: bool, cap: usize, c: bool) -> String {
  format!("o {} {} {} {} {}", len, e as u8, f as u8, cap, c as u8)
}

fn show_try_send(r: Result<(), TrySendError<P>>) -> String {
  match r {
    Ok(()) => "ok".into(),
    Err(TrySendError::Full(p)) => format!("full {}", hold(p)),
    Err(TrySendError::Closed(p)) => format!("closed {}", hold(p)),
    Err(TrySendError::Sent(p)) => format!("sent {}", hold(p)),
  }
}
fn show_try_recv(r: Result<P, TryRecvError>) -> String {
  match r {
    Ok(p) => format!("v {}", hold(p)),
    Err(TryRecvError::Empty) => "empty".into(),
    Err(TryRecvError::Disconnected) => "disc".into(),
  }
}
fn show_tsb(r: Result<usize, fibre::error::TrySendBatchError<P>>) -> String {
  match r {
    Ok(n) => format!("ok {n}"),
    Err(e) => {
      let why = match e.reason {
        BatchSendErrorReason::Full => "full",
        BatchSendErrorReason::Closed => "closed",
      };
      format!("err {} {}{}", e.sent, why, hold_all(e.unsent))
    }
  }
}
fn show_trb(r: Result<Vec<P>, TryRecvError>) -> String {
  match r {
    Ok(v) => format!("v{}", hold_all(v)),
    Err(TryRecvError::Empty) => "empty".into(),
    Err(TryRecvError::Disconnected) => "disc".into(),
  }
}

/// one op; returns (tokens consumed, result string)
fn step(c: &mut Case, t: &[&str]) -> (usize, String) {
  let num = |s: &str| s.parse::<usize>().unwrap();
  let op = t[0];
  match op {
    // ---------------------------------------------------------------- single sync/try forms
    "ts" | "tr" | "sd" | "rv" | "rt" | "cs" | "ob" => {
      let h = num(t[1]);
      let Some(hd) = c.live(h) else { return (2, "nohandle".into()) };
      let hp = hd as *const H;
      let hd = unsafe { &*hp };
      let r = match (op, hd) {
        ("ts", H::Tx(tx)) => show_try_send(tx.try_send(c.fresh())),
        ("ts", H::ATx(tx)) => show_try_send(tx.try_send(c.fresh())),
        ("tr", H::Rx(rx)) => show_try_recv(rx.try_recv()),
        ("tr", H::ARx(rx)) => show_try_recv(rx.try_recv()),
        ("sd", H::Tx(tx)) => {
          if !tx.is_closed() && tx.is_full() {
            "WOULDBLOCK".into()
          } else {
            match tx.send(c.fresh()) {
              Ok(()) => "ok".into(),
              Err(_) => "closed".into(),
            }
          }
        }
        ("rv", H::Rx(rx)) => {
          if rx.is_empty() && !rx.is_closed() {
            "WOULDBLOCK".into()
          } else {
            match rx.recv() {
              Ok(p) => format!("v {}", hold(p)),
              Err(_) => "disc".into(),
            }
          }
        }
        ("rt", H::Rx(rx)) => match rx.recv_timeout(Duration::ZERO) {
          Ok(p) => format!("v {}", hold(p)),
          Err(RecvErrorTimeout::Timeout) => "timeout".into(),
          Err(RecvErrorTimeout::Disconnected) => "disc".into(),
        },
        ("cs", _) => {
          c.hs.get_mut(&h).unwrap().closed_called = true;
          let r = match hd {
            H::Tx(x) => x.close(),
            H::Rx(x) => x.close(),
            H::ATx(x) => x.close(),
            H::ARx(x) => x.close(),
          };
          if r.is_ok() { "ok".into() } else { "closeerr".into() }
        }
        ("ob", H::Tx(x)) => obs(x.len(), x.is_empty(), x.is_full(), x.capacity(), x.is_closed()),
        ("ob", H::Rx(x)) => obs(x.len(), x.is_empty(), x.is_full(), x.capacity(), x.is_closed()),
        ("ob", H::ATx(x)) => obs(x.len(), x.is_empty(), x.is_full(), x.capacity(), x.is_closed()),
        ("ob", H::ARx(x)) => obs(x.len(), x.is_empty(), x.is_full(), x.capacity(), x.is_closed()),
        _ => "wrongkind".into(),
      };
      (2, r)
    }
    // ---------------------------------------------------------------- handle lifecycle
    "cl" | "cv" => {
      let (h, h2) = (num(t[1]), num(t[2]));
      let Some(hd) = c.live(h) else { return (3, "nohandle".into()) };
      if c.id_used(h2) {
        return (3, "badid".into());
      }
      if op == "cl" {
        let n = match hd {
          H::Tx(x) => H::Tx(x.clone()),
          H::Rx(x) => H::Rx(x.clone()),
          H::ATx(x) => H::ATx(x.clone()),
          H::ARx(x) => H::ARx(x.clone()),
        };
        c.hs.insert(h2, HEnt { h: Some(Box::new(n)), closed_called: false, nfut: 0 });
      } else {
        if c.hs[&h].nfut > 0 {
          return (3, "borrowed".into());
        }
        let old = *c.hs.get_mut(&h).unwrap().h.take().unwrap();
        let n = match old {
          H::Tx(x) => H::ATx(x.to_async()),
          H::Rx(x) => H::ARx(x.to_async()),
          H::ATx(x) => H::Tx(x.to_sync()),
          H::ARx(x) => H::Rx(x.to_sync()),
        };
        c.hs.insert(h2, HEnt { h: Some(Box::new(n)), closed_called: false, nfut: 0 });
      }
      (3, "ok".into())
    }
    "dr" => {
      let h = num(t[1]);
      if c.live(h).is_none() {
        return (2, "nohandle".into());
      }
      if c.hs[&h].nfut > 0 {
        return (2, "borrowed".into());
      }
      // take it out first: if the Drop impl panics the handle is gone all the same
      let b = c.hs.get_mut(&h).unwrap().h.take().unwrap();
      drop(b);
      (2, "ok".into())
    }
    // ---------------------------------------------------------------- batch try/blocking forms
    "tsb" | "tsm" | "sb" | "sbm" | "trb" | "trm" | "rb" | "rbm" => {
      let (h, n) = (num(t[1]), num(t[2]));
      let Some(hd) = c.live(h) else { return (3, "nohandle".into()) };
      let hp = hd as *const H;
      let hd = unsafe { &*hp };
      let show_mut = |r: Result<usize, fibre::error::SendError>, rest: Vec<P>| match r {
        Ok(k) => format!("ok {}{}", k, hold_all(rest)),
        Err(_) => format!("closed{}", hold_all(rest)),
      };
      let r = match (op, hd) {
        ("tsb", H::Tx(tx)) => show_tsb(tx.try_send_batch(c.fresh_n(n))),
        ("tsb", H::ATx(tx)) => show_tsb(tx.try_send_batch(c.fresh_n(n))),
        ("tsm", H::Tx(tx)) => {
          let mut v = c.fresh_n(n);
          let r = tx.try_send_batch_mut(&mut v);
          show_mut(r, v)
        }
        ("tsm", H::ATx(tx)) => {
          let mut v = c.fresh_n(n);
          let r = tx.try_send_batch_mut(&mut v);
          show_mut(r, v)
        }
        ("sb", H::Tx(tx)) | ("sbm", H::Tx(tx)) => {
          if !tx.is_closed() && n > tx.capacity() - tx.len() {
            "WOULDBLOCK".into()
          } else if op == "sb" {
            match tx.send_batch(c.fresh_n(n)) {
              Ok(k) => format!("ok {k}"),
              Err(e) => format!("err {}{}", e.sent, hold_all(e.unsent)),
            }
          } else {
            let mut v = c.fresh_n(n);
            let r = tx.send_batch_mut(&mut v);
            show_mut(r, v)
          }
        }
        ("trb", H::Rx(rx)) => show_trb(rx.try_recv_batch(n)),
        ("trb", H::ARx(rx)) => show_trb(rx.try_recv_batch(n)),
        ("trm", H::Rx(rx)) => {
          let mut out = Vec::new();
          match rx.try_recv_batch_mut(&mut out, n) {
            Ok(k) => format!("n {}{}", k, hold_all(out)),
            Err(TryRecvError::Empty) => format!("empty{}", hold_all(out)),
            Err(TryRecvError::Disconnected) => format!("disc{}", hold_all(out)),
          }
        }
        ("trm", H::ARx(rx)) => {
          let mut out = Vec::new();
          match rx.try_recv_batch_mut(&mut out, n) {
            Ok(k) => format!("n {}{}", k, hold_all(out)),
            Err(TryRecvError::Empty) => format!("empty{}", hold_all(out)),
            Err(TryRecvError::Disconnected) => format!("disc{}", hold_all(out)),
          }
        }
        ("rb", H::Rx(rx)) | ("rbm", H::Rx(rx)) => {
          if n > 0 && rx.is_empty() && !rx.is_closed() {
            "WOULDBLOCK".into()
          } else if op == "rb" {
            match rx.recv_batch(n) {
              Ok(v) => format!("v{}", hold_all(v)),
              Err(_) => "disc".into(),
            }
          } else {
            let mut out = Vec::new();
            match rx.recv_batch_mut(&mut out, n) {
              Ok(k) => format!("n {}{}", k, hold_all(out)),
              Err(_) => format!("disc{}", hold_all(out)),
            }
          }
        }
        _ => "wrongkind".into(),
      };
      (3, r)
    }
    // ---------------------------------------------------------------- futures
    "ms" | "mr" | "msb" | "msm" | "mrb" | "mrm" => {
      let (f, h) = (num(t[1]), num(t[2]));
      let ar = if op == "ms" || op == "mr" { 3 } else { 4 };
      let n = if ar == 4 { num(t[3]) } else { 0 };
      let Some(hd) = c.live(h) else { return (ar, "nohandle".into()) };
      let hp = hd as *const H;
      let hd: &'static H = unsafe { &*hp };
      let ent = match (op, hd) {
        ("ms", H::ATx(tx)) => {
          if c.fs.contains_key(&f) {
            return (ar, "badid".into());
          }
          let p = c.fresh();
          cell(tx.send(p), h, None, |r| match r {
            Ok(()) => "ready ok".to_string(),
            Err(_) => "ready closed".to_string(),
          })
        }
        ("mr", H::ARx(rx)) => {
          if c.fs.contains_key(&f) {
            return (ar, "badid".into());
          }
          cell(rx.recv(), h, None, |r| match r {
            Ok(p) => format!("ready v {}", hold(p)),
            Err(_) => "ready disc".to_string(),
          })
        }
        ("msb", H::ATx(tx)) => {
          if c.fs.contains_key(&f) {
            return (ar, "badid".into());
          }
          let v = c.fresh_n(n);
          cell(tx.send_batch(v), h, None, |r| match r {
            Ok(k) => format!("ready ok {k}"),
            Err(e) => format!("ready err {}{}", e.sent, hold_all(e.unsent)),
          })
        }
        ("msm", H::ATx(tx)) => {
          if c.fs.contains_key(&f) {
            return (ar, "badid".into());
          }
          let v: *mut Vec<P> = Box::into_raw(Box::new(c.fresh_n(n)));
          cell(tx.send_batch_mut(unsafe { &mut *v }), h, Some(v), |r| match r {
            Ok(k) => format!("ready ok {k}"),
            Err(_) => "ready closed".to_string(),
          })
        }
        ("mrb", H::ARx(rx)) => {
          if c.fs.contains_key(&f) {
            return (ar, "badid".into());
          }
          cell(rx.recv_batch(n), h, None, |r| match r {
            Ok(v) => format!("ready v{}", hold_all(v)),
            Err(_) => "ready disc".to_string(),
          })
        }
        ("mrm", H::ARx(rx)) => {
          if c.fs.contains_key(&f) {
            return (ar, "badid".into());
          }
          let v: *mut Vec<P> = Box::into_raw(Box::new(Vec::new()));
          cell(rx.recv_batch_mut(unsafe { &mut *v }, n), h, Some(v), |r| match r {
            Ok(k) => format!("ready n {k}"),
            Err(_) => "ready disc".to_string(),
          })
        }
        _ => return (ar, "wrongkind".into()),
      };
      c.fs.insert(f, ent);
      c.hs.get_mut(&h).unwrap().nfut += 1;
      (ar, "ok".into())
    }
    "po" => {
      let (f, w) = (num(t[1]), num(t[2]) as u32);
      let Some(fe) = c.fs.get_mut(&f) else { return (3, "nofut".into()) };
      if !fe.alive {
        return (3, "nofut".into());
      }
      if fe.done {
        return (3, "done".into());
      }
      let wk = waker(w);
      let mut cx = Context::from_waker(&wk);
      match (fe.poll)(&mut cx) {
        None => (3, "pending".into()),
        Some(s) => {
          fe.done = true;
          (3, s)
        }
      }
    }
    "df" => {
      let f = num(t[1]);
      let Some(fe) = c.fs.get_mut(&f) else { return (2, "nofut".into()) };
      if !fe.alive {
        return (2, "nofut".into());
      }
      fe.alive = false;
      let h = fe.h;
      c.hs.get_mut(&h).unwrap().nfut -= 1;
      let r = catch_unwind(AssertUnwindSafe(|| (fe.drop_it)()));
      let b = bytes(fe);
      fe.snap = b;
      // the `_mut` forms' caller-side vector goes back to the caller now
      let mut s = String::from("ok");
      if let Some(v) = fe.side.take() {
        let v = unsafe { Box::from_raw(v) };
        s.push_str(&hold_all(*v));
      }
      if r.is_err() {
        s = format!("PANIC {s}");
      }
      (2, s)
    }
    "pn" => {
      let (h, w) = (num(t[1]), num(t[2]) as u32);
      let Some(e) = c.hs.get_mut(&h) else { return (3, "nohandle".into()) };
      let Some(hd) = e.h.as_deref_mut() else { return (3, "nohandle".into()) };
      let H::ARx(rx) = hd else { return (3, "wrongkind".into()) };
      let wk = waker(w);
      let mut cx = Context::from_waker(&wk);
      match Pin::new(rx).poll_next(&mut cx) {
        Poll::Pending => (3, "pending".into()),
        Poll::Ready(Some(p)) => (3, format!("ready v {}", hold(p))),
        Poll::Ready(None) => (3, "ready none".into()),
      }
    }
    _ => (t.len(), format!("DRIVER-BADOP {op}")),
  }
}

fn run_case(toks: Vec<String>, tx: std_mpsc::Sender<String>) {
  let t: Vec<&str> = toks.iter().map(|s| s.as_str()).collect();
  let cap: usize = t[0].parse().unwrap();
  let mut c = Case { hs: BTreeMap::new(), fs: BTreeMap::new(), next: 0 };
  let (a, b) = if t[1] == "a" {
    let (a, b) = mpmc::bounded_async::<P>(cap);
    (H::ATx(a), H::ARx(b))
  } else {
    let (a, b) = mpmc::bounded::<P>(cap);
    (H::Tx(a), H::Rx(b))
  };
  c.hs.insert(0, HEnt { h: Some(Box::new(a)), closed_called: false, nfut: 0 });
  c.hs.insert(1, HEnt { h: Some(Box::new(b)), closed_called: false, nfut: 0 });
  let mut i = 3;
  while i < t.len() {
    DROPLOG.with(|d| d.borrow_mut().clear());
    WAKELOG.with(|d| d.borrow_mut().clear());
    let r = catch_unwind(AssertUnwindSafe(|| step(&mut c, &t[i..])));
    let (adv, mut s) = match r {
      Ok(x) => x,
      Err(_) => {
        // arity by op code so that the case can go on after a panic
        let ar = match t[i] {
          "cl" | "cv" | "po" | "pn" | "ms" | "mr" | "tsb" | "tsm" | "sb" | "sbm" | "trb" | "trm" | "rb" | "rbm" => 3,
          "msb" | "msm" | "mrb" | "mrm" => 4,
          _ => 2,
        };
        (ar, "PANIC".to_string())
      }
    };
    WAKELOG.with(|w| {
      for id in w.borrow().iter() {
        s.push_str(&format!(" w{id}"));
      }
    });
    DROPLOG.with(|d| {
      let mut v = d.borrow().clone();
      v.sort();
      for id in v {
        s.push_str(&format!(" d{id}"));
      }
    });
    let mut bad = false;
    for fe in c.fs.values_mut() {
      if !fe.alive {
        let b = bytes(fe);
        if b != fe.snap {
          bad = true;
          fe.snap = b;
        }
      }
    }
    if bad {
      s.push_str(" BAD");
    }
    if tx.send(s).is_err() {
      return;
    }
    i += adv;
  }
  let _ = tx.send("\u{0}END".to_string());
  // teardown outside the compared output: futures, then handles, then the kept memory
  let _ = catch_unwind(AssertUnwindSafe(|| {
    for fe in c.fs.values_mut() {
      if fe.alive {
        fe.alive = false;
        (fe.drop_it)();
      }
      if let Some(v) = fe.side.take() {
        drop(unsafe { Box::from_raw(v) });
      }
    }
  }));
  for (_, e) in std::mem::take(&mut c.hs) {
    let _ = catch_unwind(AssertUnwindSafe(move || drop(e)));
  }
  for fe in c.fs.values() {
    if fe.layout.size() != 0 {
      unsafe { dealloc(fe.ptr, fe.layout) };
    }
  }
  HELD.with(|h| h.borrow_mut().clear());
}

fn run(toks: &[&str]) -> String {
  if toks.len() < 3 {
    return "DRIVER-BADCASE".into();
  }
  let owned: Vec<String> = toks.iter().map(|s| s.to_string()).collect();
  let (tx, rx) = std_mpsc::channel::<String>();
  // every case runs on its own thread under a watchdog: an op that does not return within 2 s is
  // the output HANG and the case (and its thread) is abandoned
  let th = std::thread::Builder::new().stack_size(4 << 20).spawn(move || run_case(owned, tx)).unwrap();
  let mut outs: Vec<String> = Vec::new();
  loop {
    match rx.recv_timeout(Duration::from_secs(30)) {
      Ok(s) if s == "\u{0}END" => {
        let _ = th.join();
        break;
      }
      Ok(s) => outs.push(s),
      Err(std_mpsc::RecvTimeoutError::Timeout) => {
        outs.push("HANG".into());
        break;
      }
      Err(std_mpsc::RecvTimeoutError::Disconnected) => {
        outs.push("DRIVER-THREAD-DIED".into());
        break;
      }
    }
  }
  outs.join(" ; ")
}

fn main() {
  seqdrv::main_loop(run);
}
