//! route — D1 driver for E-ROUTE / E-PIPE (property C19) over the REAL fibre_logging.
//!
//! `init_from_file` installs process-global state (tracing subscriber + log handler), so every
//! case runs in a fresh CHILD process: the parent re-executes itself (`--child <case>`), prints
//! the child's canonical output line as the case result, `CHILD-FAILED` if the child died and
//! `HANG` if it did not finish within the watchdog (15 s after the child reported READY).
//!
//! case:   route <s|d> ( A <app> <c|f> <cap> <b|d>
//!                     | L <logger> <level> <0|1> <n> <app>*n
//!                     | E <thread> <target> <level>
//!                     | S
//!                     | D <k> )*
//!   A  appender: custom stream (c) or file (f), channel capacity, overflow block (b) / drop (d)
//!   L  logger (name `root` is the root logger; `~` is the empty name), level filter, additive, appenders
//!   E  event, emitted by <thread> through log AND through tracing (message `e <thread> <id> <l|t>`,
//!      id = ordinal of the E op); threads of one phase run concurrently
//!   D  the custom-stream consumers of the harness spin k*1000 iterations per received event (slow consumer)
//!   S  scripted shutdown point (at most one is honoured; default: after the last event);
//!      header `s` = InitResult::shutdown(5 s), `d` = drop the guard.  Events after S are emitted
//!      after shutdown returned.
//!      header `x<k>` / `y<k>` (race scenarios, judged by the monitor only, never diffed with the
//!      model): the events after S are emitted CONCURRENTLY with shutdown (x) / guard drop (y), which
//!      the main thread starts after spinning k*1000 iterations past the common barrier.
//! output: `s0: T0=0l,0t,3l T1=- ; s1: ... ; END=disc`   (per appender, per emitting thread, the
//!   received (id, via) in RECEIVED order; END=disc when every custom stream ended in Disconnected;
//!   `; LATE=n` when n more events could be received from streams AFTER they reported Disconnected;
//!   `; STUCK=n` (race scenarios) when n emitting threads were still inside a logging call after 4 s
//!   without any progress and only came back once the stream receivers were dropped)
//!   or CONFIG-ERROR / BAD-CASE.
use std::collections::BTreeMap;
use std::path::PathBuf;
use std::process::{Command, Stdio};
use std::sync::{mpsc as smpsc, Arc, Barrier};
use std::time::Duration;

macro_rules! target_pool {
  ($($idx:literal => $t:literal),* $(,)?) => {
    const TARGETS: &[&str] = &[$($t),*];
    fn emit_tracing(ti: usize, lv: usize, th: u64, id: u64) {
      match (ti, lv) {
        $(
          ($idx, 0) => tracing::event!(target: $t, tracing::Level::ERROR, "e {} {} t", th, id),
          ($idx, 1) => tracing::event!(target: $t, tracing::Level::WARN, "e {} {} t", th, id),
          ($idx, 2) => tracing::event!(target: $t, tracing::Level::INFO, "e {} {} t", th, id),
          ($idx, 3) => tracing::event!(target: $t, tracing::Level::DEBUG, "e {} {} t", th, id),
          ($idx, 4) => tracing::event!(target: $t, tracing::Level::TRACE, "e {} {} t", th, id),
        )*
        _ => panic!("bad pool index"),
      }
    }
  };
}

// tracing needs static metadata: a fixed pool of literal targets x 5 levels (one callsite each)
target_pool! {
  0 => "app", 1 => "app::db", 2 => "app::db::pool", 3 => "app::db::pool::conn", 4 => "apple",
  5 => "apple::x", 6 => "ap", 7 => "app:", 8 => "app::", 9 => "app:::x", 10 => "app::dbx",
  11 => "other", 12 => "other::x", 13 => "root", 14 => "root::x", 15 => "", 16 => "::x",
  17 => "noisy", 18 => "noisy::x", 19 => "app::x", 20 => "a", 21 => "a::x", 22 => "a::b::x",
  23 => "aa::x",
}

const LEVELS: &[&str] = &["error", "warn", "info", "debug", "trace"];

fn emit_log(target: &str, lv: usize, th: u64, id: u64) {
  let level = match lv {
    0 => log::Level::Error,
    1 => log::Level::Warn,
    2 => log::Level::Info,
    3 => log::Level::Debug,
    _ => log::Level::Trace,
  };
  log::log!(target: target, level, "e {} {} l", th, id);
}

fn uname(s: &str) -> &str {
  if s == "~" { "" } else { s }
}

fn app_ok(s: &str) -> bool {
  s.len() >= 2 && s.len() <= 4 && s.starts_with('s') && s[1..].chars().all(|c| c.is_ascii_digit())
}

struct App {
  name: String,
  file: bool,
  cap: usize,
  block: bool,
}
struct Logger {
  name: String,
  level: String,
  additive: bool,
  apps: Vec<String>,
}
#[derive(Clone)]
struct Ev {
  th: u64,
  id: u64,
  ti: usize,
  lv: usize,
}

struct Case {
  drop_guard: bool,
  race: Option<u64>,
  drain_spin: u64,
  apps: Vec<App>,
  loggers: Vec<Logger>,
  phase1: Vec<Ev>,
  phase2: Vec<Ev>,
}

fn parse(toks: &[&str]) -> Option<Case> {
  if toks.len() < 2 || toks[0] != "route" {
    return None;
  }
  let m = toks[1];
  let race = if m.starts_with('x') || m.starts_with('y') {
    Some(if m.len() > 1 { m[1..].parse::<u64>().ok()? } else { 0 })
  } else if m == "s" || m == "d" {
    None
  } else {
    return None;
  };
  let mut c = Case {
    drop_guard: m == "d" || m.starts_with('y'),
    race,
    drain_spin: 0,
    apps: vec![],
    loggers: vec![],
    phase1: vec![],
    phase2: vec![],
  };
  let mut i = 2;
  let mut id = 0u64;
  let mut after = false;
  while i < toks.len() {
    match toks[i] {
      "A" => {
        if i + 4 >= toks.len() || !app_ok(toks[i + 1]) { return None; }
        c.apps.push(App {
          name: toks[i + 1].to_string(),
          file: match toks[i + 2] { "c" => false, "f" => true, _ => return None },
          cap: toks[i + 3].parse().ok()?,
          block: match toks[i + 4] { "b" => true, "d" => false, _ => return None },
        });
        i += 5;
      }
      "L" => {
        if i + 4 >= toks.len() { return None; }
        let n: usize = toks[i + 4].parse().ok()?;
        if i + 5 + n > toks.len() { return None; }
        if !toks[i + 5..i + 5 + n].iter().all(|s| app_ok(s)) { return None; }
        let apps = toks[i + 5..i + 5 + n].iter().map(|s| s.to_string()).collect();
        c.loggers.push(Logger {
          name: uname(toks[i + 1]).to_string(),
          level: toks[i + 2].to_string(),
          additive: match toks[i + 3] { "1" => true, "0" => false, _ => return None },
          apps,
        });
        i += 5 + n;
      }
      "E" => {
        if i + 3 >= toks.len() { return None; }
        let th: u64 = toks[i + 1].parse().ok()?;
        let ti = TARGETS.iter().position(|t| *t == uname(toks[i + 2]))?;
        let lv = LEVELS.iter().position(|l| *l == toks[i + 3])?;
        let ev = Ev { th, id, ti, lv };
        id += 1;
        if after { c.phase2.push(ev) } else { c.phase1.push(ev) }
        i += 4;
      }
      "S" => {
        after = true;
        i += 1;
      }
      "D" => {
        if i + 1 >= toks.len() { return None; }
        c.drain_spin = toks[i + 1].parse().ok()?;
        i += 2;
      }
      _ => return None,
    }
  }
  Some(c)
}

fn yaml_str(s: &str) -> String {
  format!("\"{}\"", s)
}

fn tmp_root() -> PathBuf {
  if let Ok(d) = std::env::var("VERIF_TMPDIR") {
    return PathBuf::from(d);
  }
  // <build>/target/release/route -> <build>/tmp
  let exe = std::env::current_exe().unwrap();
  exe.parent().unwrap().parent().unwrap().parent().unwrap().join("tmp")
}

fn build_yaml(c: &Case, dir: &std::path::Path) -> String {
  let mut y = String::from("version: 1\nappenders:\n");
  if c.apps.is_empty() {
    y = String::from("version: 1\nappenders: {}\n");
  }
  for a in &c.apps {
    y.push_str(&format!("  {}:\n", yaml_str(&a.name)));
    let ov = if a.block { "block" } else { "drop" };
    if a.file {
      y.push_str("    kind: file\n");
      y.push_str(&format!("    path: {}\n", yaml_str(dir.join(format!("{}.log", a.name)).to_str().unwrap())));
      y.push_str("    encoder:\n      kind: pattern\n      pattern: \"%m%n\"\n");
      y.push_str(&format!("    channel_capacity: {}\n    overflow: {}\n", a.cap, ov));
    } else {
      y.push_str(&format!("    kind: custom\n    buffer_size: {}\n    overflow: {}\n", a.cap, ov));
    }
  }
  if c.loggers.is_empty() {
    y.push_str("loggers: {}\n");
  } else {
    y.push_str("loggers:\n");
  }
  for l in &c.loggers {
    y.push_str(&format!("  {}:\n    level: {}\n    additive: {}\n", yaml_str(&l.name), yaml_str(&l.level), l.additive));
    let apps: Vec<String> = l.apps.iter().map(|a| yaml_str(a)).collect();
    y.push_str(&format!("    appenders: [{}]\n", apps.join(", ")));
  }
  y
}

type Got = Vec<(u64, u64, char)>;

fn parse_msg(m: &str) -> Option<(u64, u64, char)> {
  let p: Vec<&str> = m.split_whitespace().collect();
  if p.len() == 4 && p[0] == "e" {
    Some((p[1].parse().ok()?, p[2].parse().ok()?, p[3].chars().next()?))
  } else {
    None
  }
}

/// Runs the events of one phase, one OS thread per scripted thread, released together by a
/// barrier.  `with_main`, if given, is run by the calling thread concurrently (after the same barrier).
/// With `detect_stuck`, returns the handles of emitter threads that were still inside a logging call
/// after no emitter had made progress for 4 s (threads parked in a blocking send).
fn run_phase(evs: &[Ev], with_main: Option<Box<dyn FnOnce()>>, detect_stuck: bool) -> Vec<std::thread::JoinHandle<()>> {
  let mut by_thread: BTreeMap<u64, Vec<Ev>> = BTreeMap::new();
  for e in evs {
    by_thread.entry(e.th).or_default().push(e.clone());
  }
  if by_thread.is_empty() {
    if let Some(f) = with_main {
      f();
    }
    return vec![];
  }
  let barrier = Arc::new(Barrier::new(by_thread.len() + with_main.is_some() as usize));
  let (dtx, drx) = smpsc::channel::<usize>();
  let progress = Arc::new(std::sync::atomic::AtomicUsize::new(0));
  let mut hs = vec![];
  for (k, (_, list)) in by_thread.into_iter().enumerate() {
    let b = Arc::clone(&barrier);
    let dtx = dtx.clone();
    let progress = Arc::clone(&progress);
    hs.push(Some(std::thread::spawn(move || {
      b.wait();
      for e in list {
        emit_log(TARGETS[e.ti], e.lv, e.th, e.id);
        progress.fetch_add(1, std::sync::atomic::Ordering::SeqCst);
        emit_tracing(e.ti, e.lv, e.th, e.id);
        progress.fetch_add(1, std::sync::atomic::Ordering::SeqCst);
      }
      let _ = dtx.send(k);
    })));
  }
  if let Some(f) = with_main {
    barrier.wait();
    f();
  }
  if !detect_stuck {
    // deterministic scenarios: a thread that never returns is the parent watchdog's business
    for h in hs.iter_mut() {
      h.take().unwrap().join().unwrap();
    }
    return vec![];
  }
  // race scenarios: a thread counts as stuck when NO emitter made progress for 4 s
  let mut left = hs.len();
  let mut last = (std::time::Instant::now(), progress.load(std::sync::atomic::Ordering::SeqCst));
  while left > 0 {
    match drx.recv_timeout(Duration::from_millis(200)) {
      Ok(k) => {
        hs[k].take().unwrap().join().unwrap();
        left -= 1;
        last.0 = std::time::Instant::now();
      }
      Err(_) => {
        let p = progress.load(std::sync::atomic::Ordering::SeqCst);
        if p != last.1 {
          last = (std::time::Instant::now(), p);
        } else if last.0.elapsed() >= Duration::from_secs(20) {
          break;
        }
      }
    }
  }
  hs.into_iter().flatten().collect()
}

fn child(case: &str) -> String {
  let toks: Vec<&str> = case.split_whitespace().collect();
  let c = match parse(&toks) {
    Some(c) => c,
    None => return "BAD-CASE".into(),
  };
  // duplicate YAML keys are a property of the YAML layer (serde keeps the last one), not of the
  // routing code: both drivers refuse them up front
  let mut an: Vec<&str> = c.apps.iter().map(|a| a.name.as_str()).collect();
  an.sort();
  let mut ln: Vec<&str> = c.loggers.iter().map(|l| l.name.as_str()).collect();
  ln.sort();
  if an.windows(2).any(|w| w[0] == w[1]) || ln.windows(2).any(|w| w[0] == w[1]) {
    return "DUP-KEY".into();
  }
  let dir = tmp_root().join(format!("route_{}", std::process::id()));
  let _ = std::fs::remove_dir_all(&dir);
  std::fs::create_dir_all(&dir).unwrap();
  let out = child_in(&c, &dir);
  let _ = std::fs::remove_dir_all(&dir);
  out
}

fn child_in(c: &Case, dir: &std::path::Path) -> String {
  let cfg = dir.join("cfg.yaml");
  std::fs::write(&cfg, build_yaml(c, dir)).unwrap();
  let mut init = match fibre_logging::init_from_file(&cfg) {
    Ok(i) => i,
    Err(e) => {
      if std::env::var("ROUTE_DEBUG").is_ok() {
        eprintln!("config error: {e}");
      }
      return "CONFIG-ERROR".into();
    }
  };
  // one drainer thread per custom stream, running concurrently with the emitters so that the
  // blocking overflow policy with a tiny capacity makes progress
  let streams = std::mem::take(&mut init.custom_streams);
  let mut drainers = vec![];
  for (name, rx) in streams {
    let (tx, done) = smpsc::channel::<(Got, bool, fibre_logging::CustomEventReceiver)>();
    let drain_spin = c.drain_spin;
    std::thread::spawn(move || {
      let mut got: Got = vec![];
      let disc = loop {
        match rx.recv() {
          Ok(ev) => {
            for i in 0..drain_spin * 1000 {
              std::hint::black_box(i); // a slow consumer
              std::hint::spin_loop();
            }
            if let Some(m) = ev.message.as_deref().and_then(parse_msg) {
              got.push(m);
            }
          }
          Err(_) => break true,
        }
      };
      let _ = tx.send((got, disc, rx));
    });
    drainers.push((name, done));
  }

  let mut stuck = run_phase(&c.phase1, None, false);
  let drop_guard = c.drop_guard;
  let stop = move || {
    if drop_guard {
      drop(init);
    } else {
      init.shutdown(Duration::from_secs(5));
    }
  };
  match c.race {
    None => {
      stop();
      stuck.extend(run_phase(&c.phase2, None, false));
    }
    Some(k) => {
      let f = move || {
        for i in 0..k * 1000 {
          std::hint::black_box(i);
          std::hint::spin_loop();
        }
        stop();
      };
      stuck.extend(run_phase(&c.phase2, Some(Box::new(f)), true));
    }
  }
  let n_stuck = stuck.len();

  let mut per_app: BTreeMap<String, Got> = BTreeMap::new();
  let mut all_disc = true;
  let mut late = 0usize;
  // one common deadline for all stream consumers to see Disconnected
  let drain_deadline = std::time::Instant::now() + Duration::from_secs(8);
  for (name, done) in drainers {
    match done.recv_timeout(drain_deadline.saturating_duration_since(std::time::Instant::now())) {
      Ok((got, disc, rx)) => {
        all_disc &= disc;
        per_app.insert(name, got);
        // every emitter has returned and shutdown is complete: a stream that reported
        // Disconnected must stay empty
        while rx.try_recv().is_ok() {
          late += 1;
        }
        drop(rx); // wakes senders still parked on this channel
      }
      Err(_) => {
        all_disc = false;
        per_app.insert(name, vec![]);
      }
    }
  }
  for a in &c.apps {
    if a.file {
      let text = std::fs::read_to_string(dir.join(format!("{}.log", a.name))).unwrap_or_default();
      per_app.insert(a.name.clone(), text.lines().filter_map(parse_msg).collect());
    }
  }
  let mut threads: Vec<u64> = c.phase1.iter().chain(c.phase2.iter()).map(|e| e.th).collect();
  threads.sort();
  threads.dedup();
  let mut names: Vec<&App> = c.apps.iter().collect();
  names.sort_by_key(|a| a.name.trim_start_matches('s').parse::<u64>().unwrap_or(u64::MAX));
  let mut parts = vec![];
  for a in names {
    let got = per_app.get(&a.name).cloned().unwrap_or_default();
    let mut s = format!("{}:", a.name);
    for th in &threads {
      let items: Vec<String> = got.iter().filter(|g| g.0 == *th).map(|g| format!("{}{}", g.1, g.2)).collect();
      s.push_str(&format!(" T{}={}", th, if items.is_empty() { "-".to_string() } else { items.join(",") }));
    }
    let stray = got.iter().filter(|g| !threads.contains(&g.0)).count();
    if stray > 0 {
      s.push_str(&format!(" STRAY={}", stray));
    }
    parts.push(s);
  }
  parts.push(format!("END={}", if all_disc { "disc" } else { "nodisc" }));
  if late > 0 {
    parts.push(format!("LATE={}", late));
  }
  if n_stuck > 0 {
    // the receivers are gone now: the parked senders must return (otherwise the parent reports HANG)
    for h in stuck {
      let _ = h.join();
    }
    parts.push(format!("STUCK={}", n_stuck));
  }
  parts.join(" ; ")
}

fn parent(toks: &[&str]) -> String {
  let line = toks.join(" ");
  let exe = std::env::current_exe().unwrap();
  let dbg = std::env::var("ROUTE_DEBUG").is_ok();
  let mut ch = match Command::new(exe)
    .arg("--child")
    .arg(&line)
    .stdin(Stdio::null())
    .stdout(Stdio::piped())
    .stderr(if dbg { Stdio::inherit() } else { Stdio::null() })
    .spawn()
  {
    Ok(c) => c,
    Err(_) => return "CHILD-FAILED".into(),
  };
  let so = ch.stdout.take().unwrap();
  let (tx, rx) = smpsc::channel::<String>();
  std::thread::spawn(move || {
    use std::io::BufRead;
    for l in std::io::BufReader::new(so).lines() {
      match l {
        Ok(l) => {
          if tx.send(l).is_err() {
            break;
          }
        }
        Err(_) => break,
      }
    }
  });
  // the child announces itself once it runs (an overloaded machine can take seconds to exec and
  // relocate it); the 15 s watchdog covers the scenario only
  let ready = matches!(rx.recv_timeout(Duration::from_secs(120)), Ok(l) if l == "READY");
  let res = if ready { rx.recv_timeout(Duration::from_secs(90)).map_err(|e| e == smpsc::RecvTimeoutError::Timeout) } else { Err(false) };
  match res {
    Ok(s) => {
      let ok = ch.wait().map(|st| st.success()).unwrap_or(false);
      let l = s.trim().to_string();
      if ok && !l.is_empty() { l } else { "CHILD-FAILED".into() }
    }
    Err(false) => {
      let _ = ch.kill();
      let _ = ch.wait();
      let _ = std::fs::remove_dir_all(tmp_root().join(format!("route_{}", ch.id())));
      "CHILD-FAILED".into()
    }
    Err(true) => {
      // post-mortem for the maintainer: where are the child's threads? (best effort, never part of the result)
      let log = tmp_root().join(format!("route_hang_{}.txt", ch.id()));
      let _ = std::fs::create_dir_all(tmp_root());
      let bt = Command::new("gdb")
        .args(["-p", &ch.id().to_string(), "-batch", "-ex", "thread apply all bt 16"])
        .stdin(Stdio::null())
        .stderr(Stdio::null())
        .output()
        .map(|o| String::from_utf8_lossy(&o.stdout).into_owned())
        .unwrap_or_else(|e| format!("gdb unavailable: {e}"));
      let _ = std::fs::write(&log, format!("case: {line}\n{bt}"));
      let _ = ch.kill();
      let _ = ch.wait();
      let _ = std::fs::remove_dir_all(tmp_root().join(format!("route_{}", ch.id())));
      "HANG".into()
    }
  }
}

fn main() {
  let args: Vec<String> = std::env::args().collect();
  if args.len() >= 3 && args[1] == "--child" {
    println!("READY");
    let out = child(&args[2]);
    println!("{out}");
    // writer threads abandoned by a timed-out shutdown must not keep the process alive
    std::process::exit(0);
  }
  // Same contract as seqdrv::main_loop (one result line per case line, in order), but the cases of
  // a batch are independent child processes, so a few of them run side by side.
  use std::io::{BufRead, Write};
  let lines: Vec<String> = std::io::stdin().lock().lines().map(|l| l.unwrap()).collect();
  let jobs: usize = std::env::var("ROUTE_JOBS").ok().and_then(|j| j.parse().ok()).unwrap_or(4).max(1);
  let next = Arc::new(std::sync::atomic::AtomicUsize::new(0));
  let results = Arc::new(std::sync::Mutex::new(vec![String::new(); lines.len()]));
  let lines = Arc::new(lines);
  let mut ws = vec![];
  for _ in 0..jobs.min(lines.len().max(1)) {
    let (next, results, lines) = (Arc::clone(&next), Arc::clone(&results), Arc::clone(&lines));
    ws.push(std::thread::spawn(move || loop {
      let i = next.fetch_add(1, std::sync::atomic::Ordering::SeqCst);
      if i >= lines.len() {
        break;
      }
      let toks: Vec<&str> = lines[i].split_whitespace().collect();
      let res = if toks.is_empty() { String::new() } else { parent(&toks) };
      results.lock().unwrap()[i] = res;
    }));
  }
  for w in ws {
    w.join().unwrap();
  }
  let out = std::io::stdout();
  let mut out = std::io::BufWriter::new(out.lock());
  for r in results.lock().unwrap().iter() {
    writeln!(out, "{r}").unwrap();
  }
  out.flush().unwrap();
}
