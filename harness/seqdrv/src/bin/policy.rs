//! E-POLICY (exe `policy`): drive fibre_cache::policy::* through the public CachePolicy trait.
use fibre_cache::policy::{AdmissionDecision, CachePolicy};
use std::panic::{catch_unwind, AssertUnwindSafe};

type P = Box<dyn CachePolicy<u64, ()>>;

/// header token: `<policy>` or `<policy>:<capacity>` (slru, arc, tinylfu take a capacity)
fn make(hdr: &str) -> P {
  let (name, cap) = match hdr.split_once(':') {
    Some((n, c)) => (n, c.parse::<u64>().unwrap()),
    None => (hdr, 0),
  };
  match name {
    "lru" => Box::new(fibre_cache::policy::lru::LruPolicy::<u64>::new()),
    "fifo" => Box::new(fibre_cache::policy::fifo::Fifo::<u64>::new()),
    "sieve" => Box::new(fibre_cache::policy::sieve::SievePolicy::<u64>::new()),
    "clock" => Box::new(fibre_cache::policy::clock::ClockPolicy::<u64>::new()),
    "slru" => Box::new(fibre_cache::policy::slru::SlruPolicy::<u64>::new(cap)),
    "arc" => Box::new(fibre_cache::policy::arc::ArcPolicy::<u64>::new(cap as usize)),
    "tinylfu" => Box::new(fibre_cache::policy::tinylfu::TinyLfuPolicy::<u64>::new(cap)),
    "random" => Box::new(fibre_cache::policy::random::RandomPolicy::<u64>::new()),
    _ => panic!("unknown policy {name}"),
  }
}

fn show_keys(v: &[u64]) -> String {
  v.iter().map(|k| k.to_string()).collect::<Vec<_>>().join(",")
}

fn run(toks: &[&str]) -> String {
  let p = make(toks[0]);
  let mut outs: Vec<String> = Vec::new();
  let mut i = 1;
  let num = |s: &str| s.parse::<u64>().unwrap();
  while i < toks.len() {
    let r = catch_unwind(AssertUnwindSafe(|| match toks[i] {
      "a" => {
        p.on_access(&num(toks[i + 1]), num(toks[i + 2]));
        (3, "ok".to_string())
      }
      "m" => {
        let d = p.on_admit(&num(toks[i + 1]), num(toks[i + 2]));
        let s = match d {
          AdmissionDecision::Admit => "admit".to_string(),
          AdmissionDecision::Reject => "reject".to_string(),
          AdmissionDecision::AdmitAndEvict(vs) => format!("admitevict {}", show_keys(&vs)),
        };
        (3, s)
      }
      "r" => {
        p.on_remove(&num(toks[i + 1]));
        (2, "ok".to_string())
      }
      "e" => {
        let (vs, c) = p.evict(num(toks[i + 1]));
        (2, format!("v [{}] {}", show_keys(&vs), c))
      }
      "c" => {
        p.clear();
        (1, "ok".to_string())
      }
      t => panic!("bad token {t}"),
    }));
    match r {
      Ok((adv, s)) => {
        outs.push(s);
        i += adv;
      }
      Err(_) => {
        outs.push("PANIC".to_string());
        break;
      }
    }
  }
  outs.join(" ; ")
}

fn main() {
  seqdrv::main_loop(run);
}
