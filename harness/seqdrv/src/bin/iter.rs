//! E-ITER (exe `iter`): iteration, snapshot and restore of the REAL fibre_cache::Cache.
//! case:   <shards> <cap|0> <ttl|0> <tti|0>  then ops
//!           I k v c | T k v c d | A d | G k | P k
//!           IT | IB n | IC n d K | SD | ST n | SC n d K | IS | AS
//!           SN gap rtti | SB gap rttl rtti | M | C
//! output: one token group per op, joined by " ; " (same format as ocaml/eng_iter.ml)
//! time: the cache clock is virtual (hook verif_time), 1 tick = 1 ms, starts at 1000.
use fibre_cache::policy::lru::LruPolicy;
use fibre_cache::snapshot::CacheSnapshot;
use fibre_cache::{verif_time, Cache, CacheBuilder};
use futures_util::StreamExt;
use std::hash::{BuildHasher, Hasher};
use std::panic::{catch_unwind, AssertUnwindSafe};
use std::time::Duration;

/// Deterministic hasher for u64 keys: the low 3 bits are the key's (so shard = key mod n for
/// n in {1,2,4,8}, as the model computes it), the rest is scrambled so that the order in which
/// a shard's HashMap enumerates its entries is unrelated to key or insertion order.
#[derive(Clone, Default)]
struct IdBuild;
struct IdHasher(u64);
impl Hasher for IdHasher {
  fn finish(&self) -> u64 {
    (self.0.wrapping_mul(0x9E37_79B9_7F4A_7C15) & !7) | (self.0 & 7)
  }
  fn write(&mut self, bytes: &[u8]) {
    for b in bytes {
      self.0 = (self.0 << 8) | *b as u64;
    }
  }
  fn write_u64(&mut self, i: u64) {
    self.0 = i;
  }
}
impl BuildHasher for IdBuild {
  type Hasher = IdHasher;
  fn build_hasher(&self) -> IdHasher {
    IdHasher(0)
  }
}

type C = Cache<u64, u64, IdBuild>;

fn ms(t: u64) -> Duration {
  Duration::from_millis(t)
}

/// background work pinned off: janitor tick 1 h, opportunistic maintenance 1 in 2^31, no
/// maintenance on introspection.  Bounded caches get a per-shard LruPolicy (deterministic,
/// modelled in Cache/PolicyLru.v); unbounded ones the default NullPolicy.
fn builder(shards: usize, cap: u64, ttl: u64, tti: u64) -> CacheBuilder<u64, u64, IdBuild> {
  let mut b = CacheBuilder::<u64, u64, IdBuild>::new()
    .hasher(IdBuild)
    .shards(shards)
    .janitor_tick_interval(Duration::from_secs(3600))
    .maintenance_chance(1 << 31)
    .maintenance_on_introspection(false);
  if cap > 0 {
    b = b.capacity(cap).cache_policy_factory(|| Box::new(LruPolicy::<u64>::new()));
  } else {
    b = b.unbounded();
  }
  if ttl > 0 {
    b = b.time_to_live(ms(ttl));
  }
  if tti > 0 {
    b = b.time_to_idle(ms(tti));
  }
  b
}

fn show_tagged(tag: &str, mut v: Vec<(u64, u64)>) -> String {
  v.sort();
  let body: Vec<String> = v.iter().map(|(k, x)| format!("{k}:{x}")).collect();
  format!("{tag} {} [{}]", v.len(), body.join(","))
}

fn show_items(v: Vec<(u64, u64)>) -> String {
  show_tagged("it", v)
}

/// clock += d after each of the first `k` calls of next; `done` calls were made
fn finish_clock(done: u64, k: u64, d: u64) {
  if done < k {
    verif_time::advance(ms((k - done) * d));
  }
}

fn show_val(v: Option<std::sync::Arc<u64>>) -> String {
  match v {
    Some(x) => format!("v{}", *x),
    None => "-".to_string(),
  }
}

/// the snapshot as its Serialize impl shows it: (key, value, cost, ttl_remaining in ticks)
fn snap_rows(s: &CacheSnapshot<u64, u64>) -> Vec<(u64, u64, u64, i64)> {
  let j = serde_json::to_value(s).unwrap();
  let mut rows = Vec::new();
  for e in j["entries"].as_array().unwrap() {
    let r = &e["ttl_remaining"];
    let rem = if r.is_null() {
      -1
    } else {
      let nanos = r["secs"].as_u64().unwrap() as u128 * 1_000_000_000 + r["nanos"].as_u64().unwrap() as u128;
      if nanos % 1_000_000 != 0 {
        -2 // not a whole tick: never expected under the virtual clock
      } else {
        (nanos / 1_000_000) as i64
      }
    };
    rows.push((e["key"].as_u64().unwrap(), e["value"].as_u64().unwrap(), e["cost"].as_u64().unwrap(), rem));
  }
  rows.sort();
  rows
}

/// Runs one case, sending each op's output as it is produced (`None` = case finished).
fn run_case(toks: Vec<String>, tx: std::sync::mpsc::Sender<Option<String>>) {
  let toks: Vec<&str> = toks.iter().map(|s| s.as_str()).collect();
  let num = |s: &str| s.parse::<u64>().unwrap();
  let (shards, cap, ttl, _tti) = (num(toks[0]) as usize, num(toks[1]), num(toks[2]), num(toks[3]));
  verif_time::set_virtual(ms(1000));
  let mut cache: C = match builder(shards, cap, ttl, num(toks[3])).build() {
    Ok(c) => c,
    Err(e) => {
      let _ = tx.send(Some(format!("BUILD-ERROR {e:?}")));
      let _ = tx.send(None);
      return;
    }
  };
  let mut i = 4;
  while i < toks.len() {
    let r = catch_unwind(AssertUnwindSafe(|| -> (usize, String, Option<C>) {
      match toks[i] {
        "I" => {
          cache.insert(num(toks[i + 1]), num(toks[i + 2]), num(toks[i + 3]));
          (4, "ok".into(), None)
        }
        "T" => {
          cache.insert_with_ttl(num(toks[i + 1]), num(toks[i + 2]), num(toks[i + 3]), ms(num(toks[i + 4])));
          (5, "ok".into(), None)
        }
        "A" => {
          verif_time::advance(ms(num(toks[i + 1])));
          (2, "ok".into(), None)
        }
        "G" => (2, show_val(cache.fetch(&num(toks[i + 1]))), None),
        "P" => (2, show_val(cache.peek(&num(toks[i + 1]))), None),
        "IT" => (1, show_items(cache.iter().map(|(k, v)| (k, *v)).collect()), None),
        "IB" => {
          let b = num(toks[i + 1]) as usize;
          (2, show_items(cache.iter_with_batch_size(b).map(|(k, v)| (k, *v)).collect()), None)
        }
        "IC" => {
          let (b, d, kk) = (num(toks[i + 1]) as usize, num(toks[i + 2]), num(toks[i + 3]));
          let mut it = cache.iter_with_batch_size(b);
          let mut v = Vec::new();
          let mut calls = 0u64;
          loop {
            let x = it.next();
            if calls < kk {
              verif_time::advance(ms(d));
            }
            calls += 1;
            match x {
              Some((k, val)) => v.push((k, *val)),
              None => break,
            }
          }
          finish_clock(calls, kk, d);
          (4, show_tagged(if kk == 0 { "it" } else { "ic" }, v), None)
        }
        "SD" | "ST" | "SC" => {
          let ac = cache.to_async();
          let (adv, b, d, kk) = match toks[i] {
            "SD" => (1, None, 0, 0),
            "ST" => (2, Some(num(toks[i + 1]) as usize), 0, 0),
            _ => (4, Some(num(toks[i + 1]) as usize), num(toks[i + 2]), num(toks[i + 3])),
          };
          let mut st = match b {
            None => ac.iter_stream(),
            Some(b) => ac.iter_stream_with_batch_size(b),
          };
          let mut v = Vec::new();
          let mut calls = 0u64;
          loop {
            let x = futures_executor::block_on(st.next());
            if calls < kk {
              verif_time::advance(ms(d));
            }
            calls += 1;
            match x {
              Some((k, val)) => v.push((k, *val)),
              None => break,
            }
          }
          finish_clock(calls, kk, d);
          (adv, show_tagged(if kk == 0 { "it" } else { "ic" }, v), None)
        }
        "IS" => (1, show_items(cache.iter_snapshot().map(|(k, v)| (k, *v)).collect()), None),
        "AS" => {
          let ac = cache.to_async();
          let mut it = ac.iter_snapshot_async();
          let mut v = Vec::new();
          while let Some((k, val)) = futures_executor::block_on(it.next()) {
            v.push((k, *val));
          }
          (1, show_items(v), None)
        }
        "SN" | "SB" => {
          // SN gap rtti: restoring builder without time_to_live; SB gap rttl rtti: with one
          let (adv, gap, rttl, rtti) = if toks[i] == "SN" {
            (3, num(toks[i + 1]), 0, num(toks[i + 2]))
          } else {
            (4, num(toks[i + 1]), num(toks[i + 2]), num(toks[i + 3]))
          };
          let snap = cache.to_snapshot();
          let bytes = bincode::serialize(&snap).expect("bincode serialize");
          let back: CacheSnapshot<u64, u64> = bincode::deserialize(&bytes).expect("bincode deserialize");
          let (r0, r1) = (snap_rows(&snap), snap_rows(&back));
          let body: Vec<String> = r1
            .iter()
            .map(|(k, v, c, r)| format!("{k}:{v}:{c}:{}", if *r == -1 { "-".to_string() } else { r.to_string() }))
            .collect();
          let mut s = format!("sn {} [{}]", r1.len(), body.join(","));
          if r0 != r1 {
            s.push_str(" ROUNDTRIP-DIFFERS");
          }
          verif_time::advance(ms(gap));
          // Bounded caches: the order of the snapshot's entries (the hash-map order of the original)
          // decides the LRU order of the restored policy, and the model does not know it.  A snapshot
          // is a bag of entries, so reorder the deserialized value by key through its own
          // Serialize/Deserialize impls (the model's op does the same: Snapshot.v `reorder`).
          // Unbounded caches take the bincode round trip as it is.
          let back = if cap > 0 {
            let mut j = serde_json::to_value(&back).expect("json serialize");
            j["entries"].as_array_mut().unwrap().sort_by_key(|e| e["key"].as_u64().unwrap());
            serde_json::from_value::<CacheSnapshot<u64, u64>>(j).expect("json deserialize")
          } else {
            back
          };
          // shards/capacity come from the snapshot; policy factory and hasher as for the original
          match builder(1, cap, rttl, rtti).build_from_snapshot(back) {
            Ok(c) => (adv, s, Some(c)),
            Err(e) => (adv, format!("{s} RESTORE-ERROR {e:?}"), None),
          }
        }
        "M" => {
          cache.run_maintenance();
          (1, "ok".into(), None)
        }
        "C" => (1, format!("c {}", cache.metrics().current_cost), None),
        t => panic!("bad token {t}"),
      }
    }));
    match r {
      Ok((adv, s, newc)) => {
        let _ = tx.send(Some(s));
        if let Some(c) = newc {
          cache = c;
        }
        i += adv;
      }
      Err(_) => {
        let _ = tx.send(Some("PANIC".to_string()));
        break;
      }
    }
  }
  let _ = tx.send(None);
}

/// Watchdog: an op that does not return within 30 s is the output `HANG`; the stuck thread is
/// abandoned and the rest of this process's cases are answered `SKIPPED-AFTER-HANG` (a spinning
/// thread would distort them).  Never triggers on the unchanged tree.
fn run(toks: &[&str]) -> String {
  use std::sync::atomic::{AtomicBool, Ordering};
  static HUNG: AtomicBool = AtomicBool::new(false);
  if HUNG.load(Ordering::SeqCst) {
    return "SKIPPED-AFTER-HANG".to_string();
  }
  let owned: Vec<String> = toks.iter().map(|s| s.to_string()).collect();
  let (tx, rx) = std::sync::mpsc::channel();
  std::thread::spawn(move || run_case(owned, tx));
  let mut outs: Vec<String> = Vec::new();
  loop {
    match rx.recv_timeout(Duration::from_secs(30)) {
      Ok(Some(s)) => outs.push(s),
      Ok(None) => break,
      Err(std::sync::mpsc::RecvTimeoutError::Timeout) => {
        HUNG.store(true, Ordering::SeqCst);
        outs.push("HANG".to_string());
        break;
      }
      Err(std::sync::mpsc::RecvTimeoutError::Disconnected) => {
        outs.push("PANIC".to_string());
        break;
      }
    }
  }
  outs.join(" ; ")
}

fn main() {
  seqdrv::main_loop(run);
}
