//! E-IOC (exe `ioc`): drive fibre_ioc's containers (Container::new(), global(), LocalContainer)
//! with generated registration/resolution histories.  Mirrors /verif/ocaml/eng_ioc.ml.
//!
//! case:   <mode> <op>*            mode: I = two fresh `Container::new()`,
//!                                       G = container 0 is `global()` (case runs in a child process),
//!                                       L = two `LocalContainer`s (feature `local`)
//!   op:   reg <s|t|i> <cid> <ty> <name> <ndeps> (<cid> <ty> <name> <r|o>)*
//!         res <cid> <ty> <name>
//!         stress <cid> <ty> <name> <nthreads>        (I/G only: real threads, first resolution)
//!   ty 0..5 concrete marker structs, 6..7 trait objects (`dyn Tr6`, `dyn Tr7`); name: - | a | b
//! output: per op `ok` | `none` | `some <id> f<fid> [<dep>,..]` | `PANIC`
//!         | `stress some=<n> none=<n> panic=<n> distinct=<n>`, joined by " ; ",
//!         then ` | runs <started>/<completed> ...` per registration (fid order).
//! A factory built from a script: bump started[fid]; resolve each dependency in order from the
//! named container (required = `resolve_from!`/`resolve!`, optional = `maybe_resolve_from!`/
//! `maybe_resolve!`); take a fresh instance id; bump completed[fid].
use fibre_ioc::{global, maybe_resolve, maybe_resolve_from, resolve, resolve_from, Container, LocalContainer};
use std::cell::{Cell, RefCell};
use std::collections::BTreeSet;
use std::io::{BufRead, BufReader, Write};
use std::panic::{catch_unwind, AssertUnwindSafe};
use std::process::{Command, Stdio};
use std::rc::Rc;
use std::sync::atomic::{AtomicBool, AtomicU64, Ordering};
use std::sync::{mpsc, Arc, Barrier, Mutex};
use std::time::Duration;

#[derive(Clone, Debug)]
struct Info {
  id: u64,
  fid: u64,
  deps: Vec<Option<u64>>,
}

struct T0(Info);
struct T1(Info);
struct T2(Info);
struct T3(Info);
struct T4(Info);
struct T5(Info);
trait Tr6: Send + Sync {
  fn info(&self) -> Info;
}
trait Tr7: Send + Sync {
  fn info(&self) -> Info;
}
struct Impl6(Info);
struct Impl7(Info);
impl Tr6 for Impl6 {
  fn info(&self) -> Info {
    self.0.clone()
  }
}
impl Tr7 for Impl7 {
  fn info(&self) -> Info {
    self.0.clone()
  }
}

#[derive(Clone)]
struct Dep {
  cid: usize,
  ty: usize,
  name: Option<String>,
  req: bool,
}

struct Shared {
  next_id: AtomicU64,
  started: Mutex<Vec<u64>>,
  completed: Mutex<Vec<u64>>,
  overflow: AtomicBool,
}

thread_local! {
  static DEPTH: Cell<usize> = Cell::new(0);
}
/// nesting depth of running factories on this thread.  A correct container never nests deeper than
/// the number of distinct keys (<= 48 here); beyond MAX_DEPTH the case is reported as OVERFLOW
/// instead of letting the process die of a real stack overflow.
const MAX_DEPTH: usize = 256;
struct DepthGuard;
impl DepthGuard {
  fn enter(sh: &Shared) -> DepthGuard {
    let d = DEPTH.with(|c| {
      c.set(c.get() + 1);
      c.get()
    });
    let g = DepthGuard;
    if d > MAX_DEPTH {
      sh.overflow.store(true, Ordering::SeqCst);
      panic!("factory nesting deeper than {MAX_DEPTH}");
    }
    g
  }
}
impl Drop for DepthGuard {
  fn drop(&mut self) {
    DEPTH.with(|c| c.set(c.get() - 1));
  }
}

impl Shared {
  fn new() -> Self {
    Shared { next_id: AtomicU64::new(0), started: Mutex::new(Vec::new()), completed: Mutex::new(Vec::new()), overflow: AtomicBool::new(false) }
  }
  fn new_fid(&self) -> u64 {
    let mut s = self.started.lock().unwrap();
    s.push(0);
    self.completed.lock().unwrap().push(0);
    (s.len() - 1) as u64
  }
  fn fresh(&self) -> u64 {
    self.next_id.fetch_add(1, Ordering::SeqCst)
  }
  fn runs(&self) -> String {
    let s = self.started.lock().unwrap();
    let c = self.completed.lock().unwrap();
    let mut v = vec!["runs".to_string()];
    for i in 0..s.len() {
      v.push(format!("{}/{}", s[i], c[i]));
    }
    v.join(" ")
  }
}

fn show(r: &Option<Info>) -> String {
  match r {
    None => "none".to_string(),
    Some(i) => format!(
      "some {} f{} [{}]",
      i.id,
      i.fid,
      i.deps.iter().map(|d| d.map(|x| x.to_string()).unwrap_or("-".into())).collect::<Vec<_>>().join(",")
    ),
  }
}

// ---------------------------------------------------------------- type pool
// direct `get` on a container (any flavour: the method has the same shape on both)
macro_rules! pool_get {
  ($c:expr, $ty:expr, $name:expr) => {
    match $ty {
      0 => $c.get::<T0>($name).map(|a| a.0.clone()),
      1 => $c.get::<T1>($name).map(|a| a.0.clone()),
      2 => $c.get::<T2>($name).map(|a| a.0.clone()),
      3 => $c.get::<T3>($name).map(|a| a.0.clone()),
      4 => $c.get::<T4>($name).map(|a| a.0.clone()),
      5 => $c.get::<T5>($name).map(|a| a.0.clone()),
      6 => $c.get::<dyn Tr6>($name).map(|a| a.info()),
      7 => $c.get::<dyn Tr7>($name).map(|a| a.info()),
      t => panic!("bad type index {t}"),
    }
  };
}

// dependency resolution through the crate's public macros, on an explicit container
macro_rules! dep_conc {
  ($c:expr, $T:ty, $name:expr, $req:expr) => {
    match ($name, $req) {
      (None, true) => Some(resolve_from!($c, $T).0.clone()),
      (Some(n), true) => Some(resolve_from!($c, $T, n).0.clone()),
      (None, false) => maybe_resolve_from!($c, $T).map(|a| a.0.clone()),
      (Some(n), false) => maybe_resolve_from!($c, $T, n).map(|a| a.0.clone()),
    }
  };
}
macro_rules! dep_trait {
  ($c:expr, $Tr:ident, $name:expr, $req:expr) => {
    match ($name, $req) {
      (None, true) => Some(resolve_from!($c, trait $Tr).info()),
      (Some(n), true) => Some(resolve_from!($c, trait $Tr, n).info()),
      (None, false) => maybe_resolve_from!($c, trait $Tr).map(|a| a.info()),
      (Some(n), false) => maybe_resolve_from!($c, trait $Tr, n).map(|a| a.info()),
    }
  };
}
macro_rules! pool_dep {
  ($c:expr, $ty:expr, $name:expr, $req:expr) => {
    match $ty {
      0 => dep_conc!($c, T0, $name, $req),
      1 => dep_conc!($c, T1, $name, $req),
      2 => dep_conc!($c, T2, $name, $req),
      3 => dep_conc!($c, T3, $name, $req),
      4 => dep_conc!($c, T4, $name, $req),
      5 => dep_conc!($c, T5, $name, $req),
      6 => dep_trait!($c, Tr6, $name, $req),
      7 => dep_trait!($c, Tr7, $name, $req),
      t => panic!("bad type index {t}"),
    }
  };
}
// the same through the global-container macros
macro_rules! gdep_conc {
  ($T:ty, $name:expr, $req:expr) => {
    match ($name, $req) {
      (None, true) => Some(resolve!($T).0.clone()),
      (Some(n), true) => Some(resolve!($T, n).0.clone()),
      (None, false) => maybe_resolve!($T).map(|a| a.0.clone()),
      (Some(n), false) => maybe_resolve!($T, n).map(|a| a.0.clone()),
    }
  };
}
macro_rules! gdep_trait {
  ($Tr:ident, $name:expr, $req:expr) => {
    match ($name, $req) {
      (None, true) => Some(resolve!(trait $Tr).info()),
      (Some(n), true) => Some(resolve!(trait $Tr, n).info()),
      (None, false) => maybe_resolve!(trait $Tr).map(|a| a.info()),
      (Some(n), false) => maybe_resolve!(trait $Tr, n).map(|a| a.info()),
    }
  };
}
macro_rules! pool_gdep {
  ($ty:expr, $name:expr, $req:expr) => {
    match $ty {
      0 => gdep_conc!(T0, $name, $req),
      1 => gdep_conc!(T1, $name, $req),
      2 => gdep_conc!(T2, $name, $req),
      3 => gdep_conc!(T3, $name, $req),
      4 => gdep_conc!(T4, $name, $req),
      5 => gdep_conc!(T5, $name, $req),
      6 => gdep_trait!(Tr6, $name, $req),
      7 => gdep_trait!(Tr7, $name, $req),
      t => panic!("bad type index {t}"),
    }
  };
}

// ---------------------------------------------------------------- thread-safe containers
enum CRef {
  Own(Container),
  Global,
}
impl CRef {
  fn c(&self) -> &Container {
    match self {
      CRef::Own(c) => c,
      CRef::Global => global(),
    }
  }
}
struct Ctx {
  cs: [CRef; 2],
  sh: Shared,
}

fn ts_body(ctx: &Arc<Ctx>, fid: u64, script: &[Dep]) -> Info {
  let _depth = DepthGuard::enter(&ctx.sh);
  ctx.sh.started.lock().unwrap()[fid as usize] += 1;
  let mut deps = Vec::new();
  for d in script {
    let name = d.name.as_deref();
    let r: Option<Info> = match &ctx.cs[d.cid] {
      CRef::Global => pool_gdep!(d.ty, name, d.req),
      CRef::Own(c) => pool_dep!(c, d.ty, name, d.req),
    };
    deps.push(r.map(|i| i.id));
  }
  let id = ctx.sh.fresh();
  ctx.sh.completed.lock().unwrap()[fid as usize] += 1;
  Info { id, fid, deps }
}

macro_rules! ts_reg_conc {
  ($ctx:expr, $c:expr, $kind:expr, $T:ident, $name:expr, $fid:expr, $script:expr) => {{
    let ctx2 = $ctx.clone();
    let script = $script.clone();
    let fid = $fid;
    match ($kind, $name) {
      ("s", None) => $c.add_singleton(move || $T(ts_body(&ctx2, fid, &script))),
      ("s", Some(n)) => $c.add_singleton_with_name(n, move || $T(ts_body(&ctx2, fid, &script))),
      ("t", None) => $c.add_transient(move || $T(ts_body(&ctx2, fid, &script))),
      ("t", Some(n)) => $c.add_transient_with_name(n, move || $T(ts_body(&ctx2, fid, &script))),
      ("i", None) => $c.add_instance($T(Info { id: ctx2.sh.fresh(), fid, deps: vec![] })),
      ("i", Some(n)) => $c.add_instance_with_name(n, $T(Info { id: ctx2.sh.fresh(), fid, deps: vec![] })),
      (k, _) => panic!("bad kind {k}"),
    }
  }};
}
macro_rules! ts_reg_trait {
  ($ctx:expr, $c:expr, $kind:expr, $Tr:ident, $Impl:ident, $name:expr, $fid:expr, $script:expr) => {{
    let ctx2 = $ctx.clone();
    let script = $script.clone();
    let fid = $fid;
    match ($kind, $name) {
      ("s", None) => $c.add_singleton_trait::<dyn $Tr>(move || Arc::new($Impl(ts_body(&ctx2, fid, &script)))),
      ("s", Some(n)) => {
        $c.add_singleton_trait_with_name::<dyn $Tr>(n, move || Arc::new($Impl(ts_body(&ctx2, fid, &script))))
      }
      (k, _) => panic!("kind {k} is not available for trait objects"),
    }
  }};
}

fn ts_register(ctx: &Arc<Ctx>, kind: &str, cid: usize, ty: usize, name: Option<&str>, script: Vec<Dep>) {
  let fid = ctx.sh.new_fid();
  let c = ctx.cs[cid].c();
  match ty {
    0 => ts_reg_conc!(ctx, c, kind, T0, name, fid, script),
    1 => ts_reg_conc!(ctx, c, kind, T1, name, fid, script),
    2 => ts_reg_conc!(ctx, c, kind, T2, name, fid, script),
    3 => ts_reg_conc!(ctx, c, kind, T3, name, fid, script),
    4 => ts_reg_conc!(ctx, c, kind, T4, name, fid, script),
    5 => ts_reg_conc!(ctx, c, kind, T5, name, fid, script),
    6 => ts_reg_trait!(ctx, c, kind, Tr6, Impl6, name, fid, script),
    7 => ts_reg_trait!(ctx, c, kind, Tr7, Impl7, name, fid, script),
    t => panic!("bad type index {t}"),
  }
}

fn ts_resolve(ctx: &Arc<Ctx>, cid: usize, ty: usize, name: Option<&str>) -> Option<Info> {
  let c = ctx.cs[cid].c();
  pool_get!(c, ty, name)
}

fn ts_selfreg(ctx: &Arc<Ctx>, kind: &str, cid: usize, name: Option<&str>) -> Option<Info> {
  let fid = ctx.sh.new_fid();
  let c = ctx.cs[cid].c();
  let ctx2 = ctx.clone();
  let name2 = name.map(|s| s.to_string());
  let f = move || {
    let c2 = ctx2.cs[cid].c();
    let inner = T0(Info { id: ctx2.sh.fresh(), fid, deps: vec![] });
    match name2.as_deref() {
      None => c2.add_instance(inner),
      Some(n) => c2.add_instance_with_name(n, inner),
    }
    T0(Info { id: ctx2.sh.fresh(), fid, deps: vec![] })
  };
  match (kind, name) {
    ("s", None) => c.add_singleton(f),
    ("s", Some(n)) => c.add_singleton_with_name(n, f),
    ("t", None) => c.add_transient(f),
    ("t", Some(n)) => c.add_transient_with_name(n, f),
    (k, _) => panic!("bad kind {k}"),
  }
  ts_resolve(ctx, cid, 0, name)
}

fn ts_stress(ctx: &Arc<Ctx>, cid: usize, ty: usize, name: Option<&str>, n: usize) -> String {
  let barrier = Barrier::new(n);
  let results: Mutex<Vec<Result<Option<Info>, ()>>> = Mutex::new(Vec::new());
  std::thread::scope(|sc| {
    for _ in 0..n {
      sc.spawn(|| {
        barrier.wait();
        let r = catch_unwind(AssertUnwindSafe(|| ts_resolve(ctx, cid, ty, name))).map_err(|_| ());
        results.lock().unwrap().push(r);
      });
    }
  });
  let rs = results.into_inner().unwrap();
  let (mut some, mut none, mut panic) = (0, 0, 0);
  let mut ids = BTreeSet::new();
  for r in rs {
    match r {
      Ok(Some(i)) => {
        some += 1;
        ids.insert(i.id);
      }
      Ok(None) => none += 1,
      Err(()) => panic += 1,
    }
  }
  format!("stress some={} none={} panic={} distinct={}", some, none, panic, ids.len())
}

// ---------------------------------------------------------------- LocalContainer
struct LCtx {
  cs: [RefCell<LocalContainer>; 2],
  sh: Shared,
}

fn l_body(ctx: &Rc<LCtx>, fid: u64, script: &[Dep]) -> Info {
  let _depth = DepthGuard::enter(&ctx.sh);
  ctx.sh.started.lock().unwrap()[fid as usize] += 1;
  let mut deps = Vec::new();
  for d in script {
    let name = d.name.as_deref();
    let g = ctx.cs[d.cid].borrow();
    let c: &LocalContainer = &g;
    let r: Option<Info> = pool_dep!(c, d.ty, name, d.req);
    deps.push(r.map(|i| i.id));
  }
  let id = ctx.sh.fresh();
  ctx.sh.completed.lock().unwrap()[fid as usize] += 1;
  Info { id, fid, deps }
}

macro_rules! l_reg_conc {
  ($ctx:expr, $c:expr, $kind:expr, $T:ident, $name:expr, $fid:expr, $script:expr) => {{
    let ctx2 = $ctx.clone();
    let script = $script.clone();
    let fid = $fid;
    match ($kind, $name) {
      ("s", None) => $c.add_singleton(move || $T(l_body(&ctx2, fid, &script))),
      ("s", Some(n)) => $c.add_singleton_with_name(n, move || $T(l_body(&ctx2, fid, &script))),
      ("t", None) => $c.add_transient(move || $T(l_body(&ctx2, fid, &script))),
      ("t", Some(n)) => $c.add_transient_with_name(n, move || $T(l_body(&ctx2, fid, &script))),
      (k, _) => panic!("kind {k} is not available on LocalContainer"),
    }
  }};
}
macro_rules! l_reg_trait {
  ($ctx:expr, $c:expr, $kind:expr, $Tr:ident, $Impl:ident, $name:expr, $fid:expr, $script:expr) => {{
    let ctx2 = $ctx.clone();
    let script = $script.clone();
    let fid = $fid;
    match ($kind, $name) {
      ("s", None) => $c.add_singleton_trait::<dyn $Tr>(move || Rc::new($Impl(l_body(&ctx2, fid, &script)))),
      ("s", Some(n)) => {
        $c.add_singleton_trait_with_name::<dyn $Tr>(n, move || Rc::new($Impl(l_body(&ctx2, fid, &script))))
      }
      (k, _) => panic!("kind {k} is not available for trait objects"),
    }
  }};
}

fn l_register(ctx: &Rc<LCtx>, kind: &str, cid: usize, ty: usize, name: Option<&str>, script: Vec<Dep>) {
  let fid = ctx.sh.new_fid();
  let mut c = ctx.cs[cid].borrow_mut();
  match ty {
    0 => l_reg_conc!(ctx, c, kind, T0, name, fid, script),
    1 => l_reg_conc!(ctx, c, kind, T1, name, fid, script),
    2 => l_reg_conc!(ctx, c, kind, T2, name, fid, script),
    3 => l_reg_conc!(ctx, c, kind, T3, name, fid, script),
    4 => l_reg_conc!(ctx, c, kind, T4, name, fid, script),
    5 => l_reg_conc!(ctx, c, kind, T5, name, fid, script),
    6 => l_reg_trait!(ctx, c, kind, Tr6, Impl6, name, fid, script),
    7 => l_reg_trait!(ctx, c, kind, Tr7, Impl7, name, fid, script),
    t => panic!("bad type index {t}"),
  }
}

fn l_resolve(ctx: &Rc<LCtx>, cid: usize, ty: usize, name: Option<&str>) -> Option<Info> {
  let c = ctx.cs[cid].borrow();
  pool_get!(c, ty, name)
}

// ---------------------------------------------------------------- case runner
enum Op {
  Reg { kind: String, cid: usize, ty: usize, name: Option<String>, script: Vec<Dep> },
  Res { cid: usize, ty: usize, name: Option<String> },
  Stress { cid: usize, ty: usize, name: Option<String>, n: usize },
  /// witness op for finding F-24 (not generated, not modelled): register T0 under `name` in container
  /// `cid` with a factory that re-registers its own key (add_instance) before returning; resolve it.
  SelfReg { kind: String, cid: usize, name: Option<String> },
}

fn pname(s: &str) -> Option<String> {
  if s == "-" { None } else { Some(s.to_string()) }
}

fn parse(toks: &[String]) -> Result<Vec<Op>, String> {
  let mut ops = Vec::new();
  let mut i = 0;
  let num = |s: &String| s.parse::<usize>().map_err(|_| format!("bad number {s}"));
  while i < toks.len() {
    match toks[i].as_str() {
      "reg" => {
        if i + 5 >= toks.len() {
          return Err("short reg".into());
        }
        let nd = num(&toks[i + 5])?;
        if i + 6 + 4 * nd > toks.len() {
          return Err("short reg deps".into());
        }
        let mut script = Vec::new();
        for j in 0..nd {
          let b = i + 6 + 4 * j;
          script.push(Dep { cid: num(&toks[b])?, ty: num(&toks[b + 1])?, name: pname(&toks[b + 2]), req: toks[b + 3] == "r" });
        }
        ops.push(Op::Reg { kind: toks[i + 1].clone(), cid: num(&toks[i + 2])?, ty: num(&toks[i + 3])?, name: pname(&toks[i + 4]), script });
        i += 6 + 4 * nd;
      }
      "res" => {
        if i + 3 >= toks.len() {
          return Err("short res".into());
        }
        ops.push(Op::Res { cid: num(&toks[i + 1])?, ty: num(&toks[i + 2])?, name: pname(&toks[i + 3]) });
        i += 4;
      }
      "stress" => {
        if i + 4 >= toks.len() {
          return Err("short stress".into());
        }
        ops.push(Op::Stress { cid: num(&toks[i + 1])?, ty: num(&toks[i + 2])?, name: pname(&toks[i + 3]), n: num(&toks[i + 4])? });
        i += 5;
      }
      "selfreg" => {
        if i + 3 >= toks.len() {
          return Err("short selfreg".into());
        }
        ops.push(Op::SelfReg { kind: toks[i + 1].clone(), cid: num(&toks[i + 2])?, name: pname(&toks[i + 3]) });
        i += 4;
      }
      t => return Err(format!("bad op {t}")),
    }
  }
  Ok(ops)
}

fn run_ts(global_mode: bool, ops: &[Op]) -> String {
  let ctx = Arc::new(Ctx {
    cs: [if global_mode { CRef::Global } else { CRef::Own(Container::new()) }, CRef::Own(Container::new())],
    sh: Shared::new(),
  });
  let mut outs = Vec::new();
  for op in ops {
    let r = catch_unwind(AssertUnwindSafe(|| match op {
      Op::Reg { kind, cid, ty, name, script } => {
        ts_register(&ctx, kind, *cid, *ty, name.as_deref(), script.clone());
        "ok".to_string()
      }
      Op::Res { cid, ty, name } => show(&ts_resolve(&ctx, *cid, *ty, name.as_deref())),
      Op::Stress { cid, ty, name, n } => ts_stress(&ctx, *cid, *ty, name.as_deref(), *n),
      Op::SelfReg { kind, cid, name } => show(&ts_selfreg(&ctx, kind, *cid, name.as_deref())),
    }));
    outs.push(r.unwrap_or_else(|_| "PANIC".to_string()));
  }
  if ctx.sh.overflow.load(Ordering::SeqCst) {
    return format!("OVERFLOW factories nested deeper than {MAX_DEPTH}");
  }
  format!("{} | {}", outs.join(" ; "), ctx.sh.runs())
}

fn run_local(ops: &[Op]) -> String {
  let ctx = Rc::new(LCtx { cs: [RefCell::new(LocalContainer::new()), RefCell::new(LocalContainer::new())], sh: Shared::new() });
  let mut outs = Vec::new();
  for op in ops {
    let r = catch_unwind(AssertUnwindSafe(|| match op {
      Op::Reg { kind, cid, ty, name, script } => {
        l_register(&ctx, kind, *cid, *ty, name.as_deref(), script.clone());
        "ok".to_string()
      }
      Op::Res { cid, ty, name } => show(&l_resolve(&ctx, *cid, *ty, name.as_deref())),
      Op::Stress { .. } => panic!("stress is not available on LocalContainer (not Sync)"),
      Op::SelfReg { .. } => panic!("selfreg needs &mut LocalContainer inside a factory: not expressible"),
    }));
    outs.push(r.unwrap_or_else(|_| "PANIC".to_string()));
  }
  if ctx.sh.overflow.load(Ordering::SeqCst) {
    return format!("OVERFLOW factories nested deeper than {MAX_DEPTH}");
  }
  format!("{} | {}", outs.join(" ; "), ctx.sh.runs())
}

fn run_case(mode: &str, toks: &[String]) -> String {
  let ops = match parse(toks) {
    Ok(o) => o,
    Err(e) => return format!("DRIVER-BADCASE {e}"),
  };
  match mode {
    "I" => run_ts(false, &ops),
    "G" => run_ts(true, &ops),
    "L" => run_local(&ops),
    m => format!("DRIVER-BADCASE mode {m}"),
  }
}

/// G cases need a pristine process-global container: re-exec self for that one case.
fn run_in_child(line: &str) -> String {
  let exe = std::env::current_exe().unwrap();
  let mut ch = match Command::new(exe).env("IOC_CHILD", "1").stdin(Stdio::piped()).stdout(Stdio::piped()).stderr(Stdio::null()).spawn() {
    Ok(c) => c,
    Err(e) => return format!("DRIVER-SPAWN {e}"),
  };
  {
    let mut si = ch.stdin.take().unwrap();
    let _ = writeln!(si, "{line}");
  }
  let mut out = String::new();
  let _ = BufReader::new(ch.stdout.take().unwrap()).read_line(&mut out);
  let st = ch.wait();
  let out = out.trim_end().to_string();
  if out.is_empty() { format!("CRASH child {:?}", st.map(|s| s.code())) } else { out }
}

fn run(toks: &[&str]) -> String {
  let mode = toks[0].to_string();
  if mode == "G" && std::env::var("IOC_CHILD").is_err() {
    return run_in_child(&toks.join(" "));
  }
  let rest: Vec<String> = toks[1..].iter().map(|s| s.to_string()).collect();
  // each case on its own thread (fresh thread-local resolution stack); a case that does not
  // come back is reported as HANG and its thread is abandoned
  let (tx, rx) = mpsc::channel();
  let m2 = mode.clone();
  let h = std::thread::Builder::new().stack_size(16 << 20).spawn(move || {
    let r = catch_unwind(AssertUnwindSafe(|| run_case(&m2, &rest))).unwrap_or_else(|_| "DRIVER-PANIC".to_string());
    let _ = tx.send(r);
  });
  if h.is_err() {
    return "DRIVER-SPAWN thread".to_string();
  }
  let limit = if toks.iter().any(|t| *t == "selfreg") { 4 } else { 20 };
  match rx.recv_timeout(Duration::from_secs(limit)) {
    Ok(r) => r,
    Err(_) => "HANG".to_string(),
  }
}

fn main() {
  seqdrv::main_loop(run);
}
