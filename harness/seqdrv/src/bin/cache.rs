//! E-CACHE (exe `cache`): drive fibre_cache::Cache / AsyncCache through the public API.
//! Same case/outputs as /verif/ocaml/eng_cache.ml (see there for the format).
//!
//! Determinism: virtual clock (hook H4), identity hasher (shard = key & (n-1)),
//! janitor tick 1 h, maintenance_chance(2^31) (or 1 = "every insert"), so
//! maintenance happens only where the case says.  The listener is read only at
//! `y` (sync) ops: insert+remove of a sentinel key, then wait (bounded) until the
//! sentinel's own notification has been delivered — the channel is FIFO with one
//! consumer, so everything sent before it has been delivered too.
use fibre_cache::error::ComputeResult;
use fibre_cache::policy::CachePolicy;
use fibre_cache::{AsyncCache, Cache, CacheBuilder, Entry, EvictionListener, EvictionReason};
use futures_executor::block_on;
use std::hash::{BuildHasher, Hasher};
use std::panic::{catch_unwind, AssertUnwindSafe};
use std::sync::{Arc, Condvar, Mutex};
use std::time::{Duration, Instant};

const SENTINEL: u64 = 1000;

#[derive(Clone, Default)]
struct IdBuild;
struct IdHasher(u64);
impl BuildHasher for IdBuild {
  type Hasher = IdHasher;
  fn build_hasher(&self) -> IdHasher {
    IdHasher(0)
  }
}
impl Hasher for IdHasher {
  fn finish(&self) -> u64 {
    self.0
  }
  fn write(&mut self, bytes: &[u8]) {
    for b in bytes {
      self.0 = (self.0 << 8) | *b as u64;
    }
  }
  fn write_u64(&mut self, v: u64) {
    self.0 = v;
  }
}

type Log = Arc<(Mutex<Vec<(u64, u64, char)>>, Condvar)>;
struct Rec(Log);
impl EvictionListener<u64, u64> for Rec {
  fn on_evict(&self, key: u64, value: Arc<u64>, reason: EvictionReason) {
    let r = match reason {
      EvictionReason::Capacity => 'C',
      EvictionReason::Expired => 'E',
      EvictionReason::Invalidated => 'I',
    };
    let mut g = self.0 .0.lock().unwrap();
    g.push((key, *value, r));
    self.0 .1.notify_all();
  }
}

type C = Cache<u64, u64, IdBuild>;
type A = AsyncCache<u64, u64, IdBuild>;

fn num(s: &str) -> u64 {
  s.parse::<u64>().unwrap()
}
fn klist(s: &str) -> Vec<u64> {
  if s == "-" { vec![] } else { s.split(',').map(num).collect() }
}
fn items(s: &str) -> Vec<(u64, u64, u64)> {
  if s == "-" {
    return vec![];
  }
  s.split(',')
    .map(|it| {
      let p: Vec<u64> = it.split(':').map(num).collect();
      (p[0], p[1], p[2])
    })
    .collect()
}
fn opt(o: Option<u64>) -> String {
  match o {
    Some(v) => v.to_string(),
    None => "none".into(),
  }
}
fn pairs(mut l: Vec<(u64, u64)>) -> String {
  l.sort();
  format!("[{}]", l.iter().map(|(k, v)| format!("{k}:{v}")).collect::<Vec<_>>().join(","))
}
/// closure menu: sV = set to V, k = keep; returns the old value
fn apply(f: &str, v: &mut u64) -> u64 {
  let old = *v;
  if let Some(n) = f.strip_prefix('s') {
    *v = num(n);
  }
  old
}

fn build(toks: &[&str], log: &Log) -> (C, bool) {
  let mut b = CacheBuilder::<u64, u64, IdBuild>::new()
    .hasher(IdBuild)
    .shards(num(toks[1]) as usize)
    // opp=1 (every insert maintains): the janitor's tick would do real work, keep it away (1 h).
    // opp=0: a tick is gated by the same 1-in-2^31 chance as inserts, so it is a no-op; a short
    // tick only lets the janitor thread of a dropped cache exit (it sleeps one tick after disconnect).
    .janitor_tick_interval(Duration::from_secs(if toks[7] == "1" { 3600 } else { 1 }))
    .maintenance_chance(if toks[7] == "1" { 1 } else { 1u32 << 31 })
    .maintenance_on_introspection(toks[8] == "1")
    .timer_wheel_size(num(toks[5]) as usize);
  let cap = num(toks[2]);
  b = if cap == 0 { b.unbounded() } else { b.capacity(cap) };
  if num(toks[3]) != 0 {
    b = b.time_to_live(Duration::from_nanos(num(toks[3])));
  }
  if num(toks[4]) != 0 {
    b = b.time_to_idle(Duration::from_nanos(num(toks[4])));
  }
  let listener = toks[6] == "1";
  if listener {
    b = b.eviction_listener(Rec(log.clone()));
  }
  b = match toks[0] {
    "lru" => b.cache_policy_factory(|| Box::new(fibre_cache::policy::lru::LruPolicy::<u64>::new()) as Box<dyn CachePolicy<u64, u64>>),
    "fifo" => b.cache_policy_factory(|| Box::new(fibre_cache::policy::fifo::Fifo::<u64>::new()) as Box<dyn CachePolicy<u64, u64>>),
    "sieve" => b.cache_policy_factory(|| Box::new(fibre_cache::policy::sieve::SievePolicy::<u64>::new()) as Box<dyn CachePolicy<u64, u64>>),
    "clock" => b.cache_policy_factory(|| Box::new(fibre_cache::policy::clock::ClockPolicy::<u64>::new()) as Box<dyn CachePolicy<u64, u64>>),
    "null" => b.null_policy(),
    // policies outside the Coq model (engine cache.adm, model-free): per-shard capacity as the builder's
    // own default does it; "tinylfu" IS the builder default (no factory)
    "tinylfu" => b,
    "arc" => {
      let per = ((cap as f64 / num(toks[1]).max(1) as f64).ceil() as usize).max(1);
      b.cache_policy_factory(move || Box::new(fibre_cache::policy::arc::ArcPolicy::<u64>::new(per)) as Box<dyn CachePolicy<u64, u64>>)
    }
    "slru" => {
      let per = ((cap as f64 / num(toks[1]).max(1) as f64).ceil() as u64).max(1);
      b.cache_policy_factory(move || Box::new(fibre_cache::policy::slru::SlruPolicy::<u64>::new(per)) as Box<dyn CachePolicy<u64, u64>>)
    }
    "random" => b.cache_policy_factory(|| Box::new(fibre_cache::policy::random::RandomPolicy::<u64>::new()) as Box<dyn CachePolicy<u64, u64>>),
    p => panic!("unknown policy {p}"),
  };
  (b.build().expect("build"), listener)
}

/// one op on the sync handle; returns (tokens consumed, output)
fn op_sync(c: &C, t: &[&str]) -> (usize, String) {
  match t[0] {
    "i" => {
      c.insert(num(t[1]), num(t[2]), num(t[3]));
      (4, "ok".into())
    }
    "t" => {
      c.insert_with_ttl(num(t[1]), num(t[2]), num(t[3]), Duration::from_nanos(num(t[4])));
      (5, "ok".into())
    }
    "g" => (2, opt(c.get(&num(t[1]), |v| *v))),
    "f" => (2, opt(c.fetch(&num(t[1])).map(|a| *a))),
    "p" => (2, opt(c.peek(&num(t[1])).map(|a| *a))),
    "e" => (4, (*c.entry(num(t[1])).or_insert(num(t[2]), num(t[3]))).to_string()),
    "ew" => {
      let v = num(t[2]);
      (4, (*c.entry(num(t[1])).or_insert_with(|| v, num(t[3]))).to_string())
    }
    "eo" => {
      let r = match c.entry(num(t[1])) {
        Entry::Occupied(o) => Some(*o.get()),
        Entry::Vacant(_) => None,
      };
      (2, opt(r))
    }
    "c" => (3, c.compute(&num(t[1]), |v| { apply(t[2], v); }).to_string()),
    "tc" => (3, match c.try_compute(&num(t[1]), |v| { apply(t[2], v); }) {
      Some(true) => "true".into(),
      None => "false".into(),
      Some(false) => "FAIL".into(),
    }),
    "cv" => (3, match c.compute_val(&num(t[1]), |v| apply(t[2], v)) {
      ComputeResult::Ok(old) => old.to_string(),
      ComputeResult::NotFound => "none".into(),
      ComputeResult::Fail => "FAIL".into(),
    }),
    "tv" => (3, match c.try_compute_val(&num(t[1]), |v| apply(t[2], v)) {
      ComputeResult::Ok(old) => old.to_string(),
      ComputeResult::NotFound => "none".into(),
      ComputeResult::Fail => "FAIL".into(),
    }),
    "r" => (2, opt(c.remove(&num(t[1])).map(|a| *a))),
    "x" => (2, c.invalidate(&num(t[1])).to_string()),
    "C" => {
      c.clear();
      (1, "ok".into())
    }
    "mg" => (2, pairs(c.multiget::<_, u64>(klist(t[1])).into_iter().map(|(k, v)| (k, *v)).collect())),
    "mi" => {
      c.multi_insert(items(t[1]));
      (2, "ok".into())
    }
    "mr" => (2, pairs(c.multi_remove::<_, u64>(klist(t[1])).into_iter().map(|(k, v)| (k, *v)).collect())),
    "mx" => {
      c.multi_invalidate::<_, u64>(klist(t[1]));
      (2, "ok".into())
    }
    "m" => {
      c.run_maintenance();
      (1, "ok".into())
    }
    "$" => (1, format!("c={}", c.metrics().current_cost)),
    x => panic!("bad op {x}"),
  }
}

/// the same op through the async handle (block_on); entry API: AsyncEntry
fn op_async(a: &A, t: &[&str]) -> (usize, String) {
  use fibre_cache::AsyncEntry;
  match t[0] {
    "i" => {
      block_on(a.insert(num(t[1]), num(t[2]), num(t[3])));
      (4, "ok".into())
    }
    "t" => {
      block_on(a.insert_with_ttl(num(t[1]), num(t[2]), num(t[3]), Duration::from_nanos(num(t[4]))));
      (5, "ok".into())
    }
    "g" => (2, opt(block_on(a.get(&num(t[1]), |v| *v)))),
    "f" => (2, opt(block_on(a.fetch(&num(t[1]))).map(|x| *x))),
    "p" => (2, opt(block_on(a.peek(&num(t[1]))).map(|x| *x))),
    "e" => (4, (*block_on(a.entry(num(t[1]))).or_insert(num(t[2]), num(t[3]))).to_string()),
    "ew" => {
      let v = num(t[2]);
      (4, (*block_on(a.entry(num(t[1]))).or_insert_with(|| v, num(t[3]))).to_string())
    }
    "eo" => {
      let r = match block_on(a.entry(num(t[1]))) {
        AsyncEntry::Occupied(o) => Some(*o.get()),
        AsyncEntry::Vacant(_) => None,
      };
      (2, opt(r))
    }
    "c" => (3, block_on(a.compute(&num(t[1]), |v| { apply(t[2], v); })).to_string()),
    "tc" => (3, match block_on(a.try_compute(&num(t[1]), |v| { apply(t[2], v); })) {
      Some(true) => "true".into(),
      None => "false".into(),
      Some(false) => "FAIL".into(),
    }),
    "cv" => (3, match block_on(a.compute_val(&num(t[1]), |v| apply(t[2], v))) {
      ComputeResult::Ok(old) => old.to_string(),
      ComputeResult::NotFound => "none".into(),
      ComputeResult::Fail => "FAIL".into(),
    }),
    "tv" => (3, match block_on(a.try_compute_val(&num(t[1]), |v| apply(t[2], v))) {
      ComputeResult::Ok(old) => old.to_string(),
      ComputeResult::NotFound => "none".into(),
      ComputeResult::Fail => "FAIL".into(),
    }),
    "r" => (2, opt(block_on(a.remove(&num(t[1]))).map(|x| *x))),
    "x" => (2, block_on(a.invalidate(&num(t[1]))).to_string()),
    "C" => {
      block_on(a.clear());
      (1, "ok".into())
    }
    "mg" => (2, pairs(block_on(a.multiget::<_, u64>(klist(t[1]))).into_iter().map(|(k, v)| (k, *v)).collect())),
    "mi" => {
      block_on(a.multi_insert(items(t[1])));
      (2, "ok".into())
    }
    "mr" => (2, pairs(block_on(a.multi_remove::<_, u64>(klist(t[1]))).into_iter().map(|(k, v)| (k, *v)).collect())),
    "mx" => {
      block_on(a.multi_invalidate::<_, u64>(klist(t[1])));
      (2, "ok".into())
    }
    "m" => {
      block_on(a.run_maintenance());
      (1, "ok".into())
    }
    "$" => (1, format!("c={}", a.metrics().current_cost)),
    x => panic!("bad op {x}"),
  }
}

fn run(toks: &[&str]) -> String {
  fibre_cache::verif_time::set_virtual(Duration::from_nanos(num(toks[9])));
  let log: Log = Arc::new((Mutex::new(Vec::new()), Condvar::new()));
  let (cache, listener) = build(toks, &log);
  let asynch = toks[10] == "a";
  let acache = cache.to_async();
  let mut outs: Vec<String> = Vec::new();
  let mut seen = 0usize;
  let mut i = 11;
  while i < toks.len() {
    let t = &toks[i..];
    let r = catch_unwind(AssertUnwindSafe(|| match t[0] {
      "a" => {
        fibre_cache::verif_time::advance(Duration::from_nanos(num(t[1])));
        (2, "ok".to_string())
      }
      // scan (engine cache.adm): current_cost and the residents among keys 0..N-1, by peek (no side effects)
      "s" => {
        let n = num(t[1]);
        let cc = cache.metrics().current_cost;
        let mut res: Vec<String> = Vec::new();
        for k in 0..n {
          if let Some(v) = cache.peek(&k) {
            res.push(format!("{}:{}", k, *v));
          }
        }
        (2, format!("c={}|{}", cc, res.join(",")))
      }
      "y" => {
        let v = num(t[1]);
        if asynch {
          block_on(acache.insert(SENTINEL, v, 0));
          block_on(acache.remove(&SENTINEL));
        } else {
          cache.insert(SENTINEL, v, 0);
          cache.remove(&SENTINEL);
        }
        let mut timeout = false;
        let fresh: Vec<(u64, u64, char)> = {
          let mut g = log.0.lock().unwrap();
          if listener {
            let deadline = Instant::now() + Duration::from_secs(60);
            while !g[seen..].iter().any(|n| n.0 == SENTINEL && n.1 == v) {
              let now = Instant::now();
              if now >= deadline {
                timeout = true;
                break;
              }
              g = log.1.wait_timeout(g, deadline - now).unwrap().0;
            }
          }
          let f = g[seen..].to_vec();
          seen = g.len();
          f
        };
        let mut f = fresh;
        f.sort();
        let body = f.iter().map(|(k, v, r)| format!("{k}:{v}:{r}")).collect::<Vec<_>>().join(",");
        (2, format!("{}[{}]", if timeout { "n-TIMEOUT" } else { "n" }, body))
      }
      _ => {
        if asynch { op_async(&acache, t) } else { op_sync(&cache, t) }
      }
    }));
    match r {
      Ok((adv, s)) => {
        outs.push(s);
        i += adv;
      }
      Err(_) => {
        outs.push("PANIC".to_string());
        break;
      }
    }
  }
  outs.join(" ; ")
}

fn main() {
  seqdrv::main_loop(run);
}
