//! E-LOADER (exe `loader`): drive fibre_cache's fetch_with / loader single-flight on the REAL code.
//!
//! Case lines (mirrored by /verif/ocaml/eng_loader.ml):
//!   seq  <L> <ttl|-> <grace|-> <wheel> <shards>  (f K | i K V C | r K | x K | a DT | m)*
//!   conc <L> <H> <ttl|-> <grace|-> <shards>  <scenario> <args..>
//! L = s (CacheBuilder::loader, task = std thread) | a (async_loader + harness TaskSpawner)
//! H = s (Cache::fetch_with on threads) | a (AsyncCache::fetch_with, block_on on threads)
//!
//! Control without library hooks: the harness owns the key type, the hasher and the loader
//! closure.  `Key::hash`/`Key::clone` report to a thread-local probe, which tells the harness
//! where a thread is inside fetch_with (docs/C15.md): hashing with the cache's own BuildHasher
//! (H-event) happens before the map section and again right before the stripe lock; hashing
//! with another hasher (A-event) happens only inside the stripe section (pending_loads map);
//! a clone on the calling thread happens only when it inserts a marker / spawns a load.
//! The loader closure blocks on a gate while `hold` is set.
use fibre_cache::{AsyncCache, Cache, CacheBuilder, TaskSpawner};
use serde::Serialize;
use std::cell::RefCell;
use std::collections::BTreeMap;
use std::future::Future;
use std::hash::{BuildHasher, Hash, Hasher};
use std::panic::{catch_unwind, AssertUnwindSafe};
use std::pin::Pin;
use std::sync::atomic::{AtomicBool, AtomicUsize, Ordering};
use std::sync::{mpsc, Arc, Condvar, Mutex};
use std::time::Duration;

// Waits below only ever elapse when something is stuck.  The first stuck wait of a process may
// take long (machine load); once one was seen the run is failing anyway and later waits are short.
static HUNG: AtomicBool = AtomicBool::new(false);
fn wait_dur() -> Duration {
  if HUNG.load(Ordering::SeqCst) { Duration::from_secs(2) } else { Duration::from_secs(15) }
}
fn hung() {
  HUNG.store(true, Ordering::SeqCst);
}
const VBASE: u64 = 1000;
fn loader_cost(k: u64, v: u64) -> u64 {
  1 + (k + v) % 5
}

// ------------------------------------------------------------------ probe
#[derive(Default)]
struct Probe {
  h: AtomicUsize,      // hashes with the cache's BuildHasher (IdHasher)
  a: AtomicUsize,      // hashes with any other hasher (pending_loads maps)
  clones: AtomicUsize, // Key::clone on this thread
  first_a_at_h: AtomicUsize, // value of h when the first A-event/clone happened (+1), 0 = none yet
  pause_at_h: AtomicUsize,   // pause when h reaches this value (0 = never)
  paused: Mutex<u8>,         // 0 = running, 1 = paused, 2 = resumed
  cv: Condvar,
}
thread_local! {
  static PROBE: RefCell<Option<Arc<Probe>>> = const { RefCell::new(None) };
  static EXIT: RefCell<Option<ExitGuard>> = const { RefCell::new(None) };
}
fn with_probe(f: impl FnOnce(&Arc<Probe>)) {
  let p = PROBE.with(|p| p.borrow().clone());
  if let Some(p) = p {
    f(&p)
  }
}
fn install_probe() -> Arc<Probe> {
  let p = Arc::new(Probe::default());
  PROBE.with(|q| *q.borrow_mut() = Some(p.clone()));
  p
}
impl Probe {
  fn mark_stripe(&self) {
    let _ = self.first_a_at_h.compare_exchange(0, self.h.load(Ordering::SeqCst) + 1, Ordering::SeqCst, Ordering::SeqCst);
  }
  fn wait_paused(&self) -> bool {
    let g = self.paused.lock().unwrap();
    let (g, to) = self.cv.wait_timeout_while(g, wait_dur(), |s| *s == 0).unwrap();
    drop(g);
    !to.timed_out()
  }
  fn resume(&self) {
    *self.paused.lock().unwrap() = 2;
    self.cv.notify_all();
  }
}

#[derive(PartialEq, Eq, Debug, Serialize)]
struct Key(u64);
impl Clone for Key {
  fn clone(&self) -> Self {
    with_probe(|p| {
      p.clones.fetch_add(1, Ordering::SeqCst);
      p.mark_stripe();
    });
    Key(self.0)
  }
}
impl Hash for Key {
  fn hash<S: Hasher>(&self, st: &mut S) {
    let own = std::any::type_name::<S>().ends_with("IdHasher");
    with_probe(|p| {
      if own {
        let h = p.h.fetch_add(1, Ordering::SeqCst) + 1;
        if h == p.pause_at_h.load(Ordering::SeqCst) {
          let mut g = p.paused.lock().unwrap();
          *g = 1;
          p.cv.notify_all();
          let (g2, _) = p.cv.wait_timeout_while(g, Duration::from_secs(120), |s| *s != 2).unwrap();
          drop(g2);
        }
      } else {
        p.a.fetch_add(1, Ordering::SeqCst);
        p.mark_stripe();
      }
    });
    st.write_u64(self.0);
  }
}
#[derive(Clone, Default)]
struct IdBuild;
struct IdHasher(u64);
impl BuildHasher for IdBuild {
  type Hasher = IdHasher;
  fn build_hasher(&self) -> IdHasher {
    IdHasher(0)
  }
}
impl Hasher for IdHasher {
  fn write(&mut self, b: &[u8]) {
    for x in b {
      self.0 = self.0.wrapping_mul(257).wrapping_add(*x as u64);
    }
  }
  fn write_u64(&mut self, x: u64) {
    self.0 = x;
  }
  fn finish(&self) -> u64 {
    self.0
  }
}
#[derive(Clone, Serialize)]
struct Val {
  id: u64,
}

// ------------------------------------------------------------------ loader control
#[derive(Default)]
struct CtlState {
  nruns: u64,
  runs: BTreeMap<u64, u64>,
  expected: u64, // loader tasks known to have been spawned
  done: u64,     // loader tasks that finished (thread exit / spawner wrapper)
  hold: bool,
  released: Vec<u64>, // keys whose held loads may proceed
}
struct Ctl {
  m: Mutex<CtlState>,
  cv: Condvar,
  sync_loader: AtomicBool,
  task_pause_at: AtomicUsize,            // park the next loader task at its J-th H-event after the loader returned
  task_probe: Mutex<Option<Arc<Probe>>>, // ... through this probe, installed on the task's thread
}
struct ExitGuard(Arc<Ctl>);
impl Drop for ExitGuard {
  fn drop(&mut self) {
    let mut g = self.0.m.lock().unwrap();
    g.done += 1;
    self.0.cv.notify_all();
  }
}
impl Ctl {
  fn new(sync_loader: bool) -> Arc<Ctl> {
    Arc::new(Ctl { m: Mutex::new(CtlState::default()), cv: Condvar::new(), sync_loader: AtomicBool::new(sync_loader), task_pause_at: AtomicUsize::new(0), task_probe: Mutex::new(None) })
  }
  /// the body of the loader closure: count the run, hand out a fresh value id, wait at the gate
  fn load(self: &Arc<Ctl>, k: u64) -> (Val, u64) {
    if self.sync_loader.load(Ordering::SeqCst) {
      // the task is a std thread spawned by the cache: its exit (after complete()) is the
      // TLS destructor of this guard
      EXIT.with(|e| {
        let mut e = e.borrow_mut();
        if e.is_none() {
          *e = Some(ExitGuard(self.clone()));
        }
      });
    }
    let mut g = self.m.lock().unwrap();
    let id = VBASE + g.nruns;
    g.nruns += 1;
    *g.runs.entry(k).or_insert(0) += 1;
    self.cv.notify_all();
    let (g2, _) = self.cv.wait_timeout_while(g, Duration::from_secs(120), |s| s.hold && !s.released.contains(&k)).unwrap();
    drop(g2);
    let j = self.task_pause_at.swap(0, Ordering::SeqCst);
    if j > 0 {
      let p = install_probe();
      p.pause_at_h.store(j, Ordering::SeqCst);
      *self.task_probe.lock().unwrap() = Some(p);
      self.cv.notify_all();
    }
    (Val { id }, loader_cost(k, id))
  }
  fn set_hold(&self, h: bool) {
    let mut g = self.m.lock().unwrap();
    g.hold = h;
    if !h {
      g.released.clear();
    }
    self.cv.notify_all();
  }
  fn release(&self, k: u64) {
    let mut g = self.m.lock().unwrap();
    g.released.push(k);
    self.cv.notify_all();
  }
  fn wait_runs(&self, n: u64) -> bool {
    let g = self.m.lock().unwrap();
    let (g, to) = self.cv.wait_timeout_while(g, wait_dur(), |s| s.nruns < n).unwrap();
    drop(g);
    if to.timed_out() {
      hung();
    }
    !to.timed_out()
  }
  fn nruns(&self) -> u64 {
    self.m.lock().unwrap().nruns
  }
  /// a fetch_with on this thread spawned a task iff it cloned the key (marker insert + spawn)
  fn after_call(&self, p: &Probe) {
    let c = p.clones.swap(0, Ordering::SeqCst);
    if c > 0 && self.sync_loader.load(Ordering::SeqCst) {
      let mut g = self.m.lock().unwrap();
      g.expected += 1;
      self.cv.notify_all();
    }
  }
  fn wait_quiescent(&self) -> bool {
    let g = self.m.lock().unwrap();
    let (g, to) = self.cv.wait_timeout_while(g, wait_dur(), |s| s.done < s.expected).unwrap();
    drop(g);
    if to.timed_out() {
      hung();
    }
    !to.timed_out()
  }
  fn runs_string(&self) -> String {
    let g = self.m.lock().unwrap();
    g.runs.iter().map(|(k, n)| format!("{k}:{n}")).collect::<Vec<_>>().join(",")
  }
}

/// TaskSpawner supplied to the cache for async loaders: one thread per task (block_on)
struct ThreadSpawner(Arc<Ctl>);
impl TaskSpawner for ThreadSpawner {
  fn spawn(&self, fut: Pin<Box<dyn Future<Output = ()> + Send>>) {
    let ctl = self.0.clone();
    {
      let mut g = ctl.m.lock().unwrap();
      g.expected += 1;
    }
    std::thread::spawn(move || {
      futures_executor::block_on(fut);
      let mut g = ctl.m.lock().unwrap();
      g.done += 1;
      ctl.cv.notify_all();
    });
  }
}

// ------------------------------------------------------------------ cache construction
type C = Cache<Key, Val, IdBuild>;
struct Cfg {
  sync_loader: bool,
  ttl: Option<u64>,
  grace: Option<u64>,
  wheel: usize,
  shards: usize,
}
fn opt(s: &str) -> Option<u64> {
  if s == "-" { None } else { Some(s.parse().unwrap()) }
}
fn build(cfg: &Cfg, ctl: &Arc<Ctl>) -> C {
  fibre_cache::verif_time::set_virtual(Duration::from_secs(1));
  let mut b = CacheBuilder::<Key, Val, IdBuild>::new()
    .shards(cfg.shards)
    .janitor_tick_interval(Duration::from_millis(200))
    .maintenance_chance(1 << 31)
    .timer_tick_duration(Duration::from_secs(1))
    .timer_wheel_size(cfg.wheel);
  if let Some(t) = cfg.ttl {
    b = b.time_to_live(Duration::from_secs(t));
  }
  if let Some(g) = cfg.grace {
    b = b.stale_while_revalidate(Duration::from_secs(g));
  }
  if cfg.sync_loader {
    let c = ctl.clone();
    b = b.loader(move |k: Key| c.load(k.0));
  } else {
    let c = ctl.clone();
    b = b
      .async_loader(move |k: Key| {
        let c = c.clone();
        async move { c.load(k.0) }
      })
      .spawner(Arc::new(ThreadSpawner(ctl.clone())));
  }
  b.build().expect("build")
}

fn resident(cache: &C) -> String {
  let snap = serde_json::to_value(cache.to_snapshot()).unwrap();
  let mut es: Vec<(u64, u64, u64, String)> = snap["entries"]
    .as_array()
    .unwrap()
    .iter()
    .map(|e| {
      let ttl = match &e["ttl_remaining"] {
        serde_json::Value::Null => "-".to_string(),
        d => d["secs"].as_u64().unwrap().to_string(),
      };
      (e["key"].as_u64().unwrap(), e["value"]["id"].as_u64().unwrap(), e["cost"].as_u64().unwrap(), ttl)
    })
    .collect();
  es.sort();
  es.iter().map(|(k, v, c, t)| format!("{k}:{v}:{c}:{t}")).collect::<Vec<_>>().join(",")
}

fn tail(cache: &C, ctl: &Ctl) -> String {
  format!("runs {} | res {} | cc {}", ctl.runs_string(), resident(cache), cache.metrics().current_cost)
}

// ------------------------------------------------------------------ sequential histories
fn run_seq(t: &[String]) -> String {
  let cfg = Cfg { sync_loader: t[1] == "s", ttl: opt(&t[2]), grace: opt(&t[3]), wheel: t[4].parse().unwrap(), shards: t[5].parse().unwrap() };
  let ctl = Ctl::new(cfg.sync_loader);
  let cache = build(&cfg, &ctl);
  let probe = install_probe();
  let mut outs: Vec<String> = Vec::new();
  let num = |s: &String| s.parse::<u64>().unwrap();
  let mut i = 6;
  while i < t.len() {
    let r = catch_unwind(AssertUnwindSafe(|| match t[i].as_str() {
      "f" => {
        probe.clones.store(0, Ordering::SeqCst);
        let v = cache.fetch_with(&Key(num(&t[i + 1])));
        ctl.after_call(&probe);
        if !ctl.wait_quiescent() {
          return (2, format!("v{} TASK-HANG", v.id));
        }
        (2, format!("v{}", v.id))
      }
      "i" => {
        cache.insert(Key(num(&t[i + 1])), Val { id: num(&t[i + 2]) }, num(&t[i + 3]));
        (4, "ok".to_string())
      }
      "r" => match cache.remove(&Key(num(&t[i + 1]))) {
        Some(v) => (2, format!("r{}", v.id)),
        None => (2, "r-".to_string()),
      },
      "x" => (2, if cache.invalidate(&Key(num(&t[i + 1]))) { "t" } else { "f" }.to_string()),
      "a" => {
        fibre_cache::verif_time::advance(Duration::from_secs(num(&t[i + 1])));
        (2, "ok".to_string())
      }
      "m" => {
        cache.run_maintenance();
        (1, "ok".to_string())
      }
      x => panic!("bad op {x}"),
    }));
    match r {
      Ok((adv, s)) => {
        outs.push(s);
        i += adv;
      }
      Err(_) => {
        outs.push("PANIC".to_string());
        break;
      }
    }
  }
  format!("{} | {}", outs.join(" ; "), tail(&cache, &ctl))
}

// ------------------------------------------------------------------ concurrent scenarios
struct Worker {
  probe: Arc<Probe>,
  rx: mpsc::Receiver<Result<u64, ()>>,
}
struct Env {
  cache: C,
  acache: AsyncCache<Key, Val, IdBuild>,
  ctl: Arc<Ctl>,
  async_handle: bool,
  hang: usize,
  panics: usize,
  rets: BTreeMap<(u64, u64), u64>, // (key, id) -> count
}
impl Env {
  /// start a thread calling fetch_with(k); `pause_at_h` > 0 parks it at that H-event
  fn spawn_fetch(&self, k: u64, pause_at_h: usize) -> Worker {
    let probe = Arc::new(Probe::default());
    probe.pause_at_h.store(pause_at_h, Ordering::SeqCst);
    let (tx, rx) = mpsc::channel();
    let (p2, cache, acache, ctl, ah) = (probe.clone(), self.cache.clone(), self.acache.clone(), self.ctl.clone(), self.async_handle);
    std::thread::spawn(move || {
      PROBE.with(|q| *q.borrow_mut() = Some(p2.clone()));
      let r = catch_unwind(AssertUnwindSafe(|| {
        if ah {
          futures_executor::block_on(acache.fetch_with(&Key(k))).id
        } else {
          cache.fetch_with(&Key(k)).id
        }
      }));
      ctl.after_call(&p2);
      let _ = tx.send(r.map_err(|_| ()));
    });
    Worker { probe, rx }
  }
  /// wait until the worker is inside/after its stripe section (or already returned)
  fn wait_at_stripe(&mut self, w: &Worker) {
    let t0 = std::time::Instant::now();
    while w.probe.first_a_at_h.load(Ordering::SeqCst) == 0 {
      if t0.elapsed() > wait_dur() {
        hung();
        self.hang += 1;
        return;
      }
      std::thread::yield_now();
    }
  }
  fn join(&mut self, k: u64, w: Worker) {
    match w.rx.recv_timeout(wait_dur()) {
      Ok(Ok(id)) => *self.rets.entry((k, id)).or_insert(0) += 1,
      Ok(Err(())) => self.panics += 1,
      Err(_) => {
        hung();
        self.hang += 1
      }
    }
  }
  /// a call that must return without anybody's help (hit / stale serve): its result, joined now
  fn call_now(&mut self, k: u64) {
    let w = self.spawn_fetch(k, 0);
    self.join(k, w);
  }
  fn quiesce(&mut self) {
    if !self.ctl.wait_quiescent() {
      self.hang += 1;
    }
  }
  fn summary(&self) -> String {
    let rets = self.rets.iter().map(|((k, id), n)| format!("{k}:{id}*{n}")).collect::<Vec<_>>().join(",");
    format!("rets {} | {} | hang {} panic {}", rets, tail(&self.cache, &self.ctl), self.hang, self.panics)
  }
}

/// number of H-events a missing caller performs before it reaches its stripe section,
/// measured on a twin cache in the same state (empty map): the pause point of `late`
fn calibrate(cfg: &Cfg, async_handle: bool) -> usize {
  let ctl = Ctl::new(cfg.sync_loader);
  let cache = build(cfg, &ctl);
  let mut env = Env { acache: cache.to_async(), cache, ctl, async_handle, hang: 0, panics: 0, rets: BTreeMap::new() };
  let w = env.spawn_fetch(0, 0);
  let p = w.probe.clone();
  env.join(0, w);
  env.quiesce();
  p.first_a_at_h.load(Ordering::SeqCst).saturating_sub(1)
}

fn run_conc(t: &[String]) -> String {
  let cfg = Cfg { sync_loader: t[1] == "s", ttl: opt(&t[3]), grace: opt(&t[4]), wheel: 4, shards: t[5].parse().unwrap() };
  let async_handle = t[2] == "a";
  let num = |i: usize| t[i].parse::<u64>().unwrap();
  let pause_h = if t[6] == "late" { calibrate(&cfg, async_handle) } else { 0 };
  let ctl = Ctl::new(cfg.sync_loader);
  let cache = build(&cfg, &ctl);
  let mut e = Env { acache: cache.to_async(), cache, ctl, async_handle, hang: 0, panics: 0, rets: BTreeMap::new() };
  // a herd of m callers of k arriving while the (first) load of k is held at the gate
  fn herd(e: &mut Env, k: u64, m: u64) -> Vec<Worker> {
    let base = e.ctl.nruns();
    let mut ws = Vec::new();
    ws.push(e.spawn_fetch(k, 0));
    if !e.ctl.wait_runs(base + 1) {
      e.hang += 1;
    }
    for _ in 1..m {
      ws.push(e.spawn_fetch(k, 0));
    }
    for w in &ws {
      e.wait_at_stripe(w);
    }
    ws
  }
  fn join_all(e: &mut Env, k: u64, ws: Vec<Worker>) {
    for w in ws {
      e.join(k, w);
    }
  }
  let mut early: Option<bool> = None; // tpause: did the second caller return while the task was parked
  /// wait until the loader task armed with `task_pause_at` is parked; its probe
  fn wait_task_parked(e: &mut Env) -> Option<Arc<Probe>> {
    let t0 = std::time::Instant::now();
    let tp = loop {
      if let Some(p) = e.ctl.task_probe.lock().unwrap().clone() {
        break Some(p);
      }
      if t0.elapsed() > wait_dur() {
        break None;
      }
      std::thread::yield_now();
    };
    let paused = tp.as_ref().map(|p| p.wait_paused()).unwrap_or(false);
    if !paused {
      hung();
      e.hang += 1;
    }
    tp
  }
  let mut probe_state: Option<&'static str> = None; // reinv: was the in-flight future already completed
  match t[6].as_str() {
    // herd K M : M callers miss on K during one held load
    "herd" => {
      let (k, m) = (num(7), num(8));
      e.ctl.set_hold(true);
      let ws = herd(&mut e, k, m);
      e.ctl.set_hold(false);
      join_all(&mut e, k, ws);
      e.quiesce();
    }
    // two K1 K2 M : loads of two keys held at once; K2 released and joined while K1 is still held
    "two" => {
      let (k1, k2, m) = (num(7), num(8), num(9));
      e.ctl.set_hold(true);
      let w1 = herd(&mut e, k1, m);
      let w2 = herd(&mut e, k2, m);
      e.ctl.release(k2);
      join_all(&mut e, k2, w2);
      e.ctl.set_hold(false);
      join_all(&mut e, k1, w1);
      e.quiesce();
    }
    // during K M1 M2 : M1 callers during the load, M2 after its completion
    "during" => {
      let (k, m1, m2) = (num(7), num(8), num(9));
      e.ctl.set_hold(true);
      let ws = herd(&mut e, k, m1);
      e.ctl.set_hold(false);
      join_all(&mut e, k, ws);
      e.quiesce();
      for _ in 0..m2 {
        e.call_now(k);
      }
      e.quiesce();
    }
    // reload K M : herd, invalidate, herd again
    "reload" => {
      let (k, m) = (num(7), num(8));
      for round in 0..2 {
        e.ctl.set_hold(true);
        let ws = herd(&mut e, k, m);
        e.ctl.set_hold(false);
        join_all(&mut e, k, ws);
        e.quiesce();
        if round == 0 {
          e.cache.invalidate(&Key(k));
        }
      }
    }
    // expire K M DT : herd, advance the clock by DT, herd again (needs ttl; DT beyond ttl+grace)
    "expire" => {
      let (k, m, dt) = (num(7), num(8), num(9));
      for round in 0..2 {
        e.ctl.set_hold(true);
        let ws = herd(&mut e, k, m);
        e.ctl.set_hold(false);
        join_all(&mut e, k, ws);
        e.quiesce();
        if round == 0 {
          fibre_cache::verif_time::advance(Duration::from_secs(dt));
        }
      }
    }
    // stale K M DT : load; advance DT into the grace window; M callers are served the stale value
    // while the refresh is held (they must not wait); release; one more call sees the new value
    "stale" => {
      let (k, m, dt) = (num(7), num(8), num(9));
      e.call_now(k);
      e.quiesce();
      fibre_cache::verif_time::advance(Duration::from_secs(dt));
      e.ctl.set_hold(true);
      let ws: Vec<Worker> = (0..m).map(|_| e.spawn_fetch(k, 0)).collect();
      join_all(&mut e, k, ws);
      if !e.ctl.wait_runs(2) {
        e.hang += 1;
      }
      e.ctl.set_hold(false);
      e.quiesce();
      e.call_now(k);
      e.quiesce();
    }
    // late K : the F-22 schedule.  B misses in the map, is parked right before its stripe section;
    // the first load completes (map write, marker removal); B resumes.
    "late" => {
      let k = num(7);
      e.ctl.set_hold(true);
      let a = e.spawn_fetch(k, 0);
      if !e.ctl.wait_runs(1) {
        e.hang += 1;
      }
      let b = e.spawn_fetch(k, pause_h);
      if pause_h == 0 || !b.probe.wait_paused() {
        e.hang += 1;
      }
      e.ctl.set_hold(false);
      e.join(k, a);
      e.quiesce();
      b.probe.resume();
      e.join(k, b);
      e.quiesce();
    }
    // tpause K J : the loader task is parked at its J-th own-hasher event after the loader returned
    // (J=1: before the map write; J=3: after it, before the marker removal); a second caller arrives
    "tpause" => {
      let (k, j) = (num(7), num(8) as usize);
      e.ctl.task_pause_at.store(j, Ordering::SeqCst);
      let a = e.spawn_fetch(k, 0);
      let tp = wait_task_parked(&mut e);
      let b = e.spawn_fetch(k, 0);
      // B either returns (hit) or reaches its stripe section (joins the pending load)
      let t1 = std::time::Instant::now();
      let mut b_res = None;
      loop {
        if let Ok(r) = b.rx.try_recv() {
          b_res = Some(r);
          break;
        }
        if b.probe.first_a_at_h.load(Ordering::SeqCst) != 0 {
          break;
        }
        if t1.elapsed() > wait_dur() {
          hung();
          e.hang += 1;
          break;
        }
        std::thread::yield_now();
      }
      if let Some(p) = &tp {
        p.resume();
      }
      e.join(k, a);
      early = Some(b_res.is_some());
      match b_res {
        Some(Ok(id)) => *e.rets.entry((k, id)).or_insert(0) += 1,
        Some(Err(())) => e.panics += 1,
        None => e.join(k, b),
      }
      e.quiesce();
    }
    // reinv K : the loader task is parked right before its marker removal (after the map write).
    // The harness invalidates K and polls AsyncCache::fetch_with(K) exactly ONCE: the call misses,
    // finds the marker and joins that load; Pending = the load is not completed yet (callers are
    // still blocked), Ready = it was completed while still registered as in flight.  Then callers
    // are released as early as the implementation allows, and invalidate + fetch_with must start
    // a NEW load.
    "reinv" => {
      let k = num(7);
      let me = install_probe();
      e.ctl.task_pause_at.store(3, Ordering::SeqCst);
      let a = e.spawn_fetch(k, 0);
      let tp = wait_task_parked(&mut e);
      e.cache.invalidate(&Key(k));
      let key = Key(k);
      let ac = e.acache.clone();
      let mut fut = Box::pin(ac.fetch_with(&key));
      let waker = futures_util::task::noop_waker();
      let mut cx = std::task::Context::from_waker(&waker);
      let first = fut.as_mut().poll(&mut cx);
      e.ctl.after_call(&me);
      match first {
        std::task::Poll::Ready(v) => {
          probe_state = Some("ready");
          *e.rets.entry((k, v.id)).or_insert(0) += 1;
          e.join(k, a); // it was woken: it can return without the task moving
          e.cache.invalidate(&Key(k));
          e.call_now(k);
          if let Some(p) = &tp {
            p.resume();
          }
          e.quiesce();
        }
        std::task::Poll::Pending => {
          probe_state = Some("pending");
          if let Some(p) = &tp {
            p.resume();
          }
          e.join(k, a);
          let v = futures_executor::block_on(fut);
          e.ctl.after_call(&me);
          *e.rets.entry((k, v.id)).or_insert(0) += 1;
          e.quiesce();
          e.cache.invalidate(&Key(k));
          e.call_now(k);
          e.quiesce();
        }
      }
    }
    // stress K R T : R rounds x T ungated callers on fresh keys K, K+1, ..; reports rounds with != 1 load
    "stress" => {
      let (k0, r, th) = (num(7), num(8), num(9));
      let mut dup = 0;
      for round in 0..r {
        let k = k0 + round;
        let ws: Vec<Worker> = (0..th).map(|_| e.spawn_fetch(k, 0)).collect();
        join_all(&mut e, k, ws);
        e.quiesce();
        if e.ctl.m.lock().unwrap().runs.get(&k).copied().unwrap_or(0) != 1 {
          dup += 1;
        }
      }
      let distinct_bad = e.rets.keys().map(|(k, _)| *k).collect::<Vec<_>>();
      let mut per: BTreeMap<u64, usize> = BTreeMap::new();
      for k in distinct_bad {
        *per.entry(k).or_insert(0) += 1;
      }
      let split = per.values().filter(|n| **n > 1).count();
      return format!("stress rounds {} dup {} split {} hang {} panic {}", r, dup, split, e.hang, e.panics);
    }
    x => panic!("bad scenario {x}"),
  }
  match (early, probe_state) {
    (Some(b), _) => format!("{} | early {}", e.summary(), b as u8),
    (_, Some(p)) => format!("{} | probe {}", e.summary(), p),
    _ => e.summary(),
  }
}

fn run(toks: &[&str]) -> String {
  // each case on its own thread so that a stuck case becomes the output HANG
  let t: Vec<String> = toks.iter().map(|s| s.to_string()).collect();
  let (tx, rx) = mpsc::channel();
  std::thread::spawn(move || {
    let r = catch_unwind(AssertUnwindSafe(|| match t[0].as_str() {
      "seq" => run_seq(&t),
      "conc" => run_conc(&t),
      x => format!("DRIVER bad mode {x}"),
    }));
    let _ = tx.send(r.unwrap_or_else(|_| "PANIC".to_string()));
  });
  let limit = if HUNG.load(Ordering::SeqCst) { Duration::from_secs(10) } else { Duration::from_secs(50) };
  rx.recv_timeout(limit).unwrap_or_else(|_| {
    hung();
    "HANG".to_string()
  })
}

fn main() {
  seqdrv::main_loop(run);
}
