//! E-JSON / E-PATTERN (exe `json`): drive the REAL fibre_logging encoders through their public API
//! (`fibre_logging::encoders::{json::JsonLinesFormatter, pattern::PatternFormatter}` +
//! `EventFormatter::format_event` on a directly constructed `LogEvent`).
//!
//! case:   json    <flat|nest>              EV OP*
//!         pattern <full|nopanic> <s:PAT>   EV OP*
//!   EV  = <LEVEL> <ts_millis> <s:ts_render> <target> <name> <msg> <span> <parent> <tid> <tname>
//!         strings are `s:<hex of UTF-8 bytes>`, absent optionals are `-`; `ts_render` is used by the
//!         model only (opaque timestamp text) — this driver builds the DateTime from ts_millis
//!   OP  = f <s:name> S|D <s:value> | f <s:name> I <i64> | f <s:name> B 0|1
//!       | f <s:name> F <f64 bits hex>/<s:json text>/<s:display text>     (texts: model only)
//!       | d <s:date options> <s:render> -                                 (model only)
//! output: lowercase hex of the bytes returned by format_event | PANIC | ERR | BADCASE <why>
//!         (`nopanic` mode: OK | PANIC | ERR)
use fibre_logging::config::processed::JsonLinesEncoderInternal;
use fibre_logging::encoders::json::JsonLinesFormatter;
use fibre_logging::encoders::pattern::PatternFormatter;
use fibre_logging::encoders::EventFormatter;
use fibre_logging::{LogEvent, LogValue};
use std::panic::{catch_unwind, AssertUnwindSafe};

fn unhex(s: &str) -> Option<Vec<u8>> {
  if s.len() % 2 != 0 {
    return None;
  }
  (0..s.len() / 2).map(|i| u8::from_str_radix(s.get(2 * i..2 * i + 2)?, 16).ok()).collect()
}

fn hex(b: &[u8]) -> String {
  let mut s = String::with_capacity(b.len() * 2);
  for x in b {
    s.push_str(&format!("{x:02x}"));
  }
  s
}

/// `s:<hex>` -> String (must be valid UTF-8: Rust `String`s are)
fn sval(tok: &str) -> Result<String, String> {
  let h = tok.strip_prefix("s:").ok_or_else(|| format!("bad-string-token {tok}"))?;
  let b = unhex(h).ok_or_else(|| format!("bad-hex {tok}"))?;
  String::from_utf8(b).map_err(|_| "not-utf8".to_string())
}

fn opt(tok: &str) -> Result<Option<String>, String> {
  if tok == "-" { Ok(None) } else { sval(tok).map(Some) }
}

fn level(tok: &str) -> Result<tracing::Level, String> {
  Ok(match tok {
    "TRACE" => tracing::Level::TRACE,
    "DEBUG" => tracing::Level::DEBUG,
    "INFO" => tracing::Level::INFO,
    "WARN" => tracing::Level::WARN,
    "ERROR" => tracing::Level::ERROR,
    _ => return Err(format!("bad-level {tok}")),
  })
}

fn event(t: &[&str]) -> Result<LogEvent, String> {
  if t.len() < 10 {
    return Err("short-event".into());
  }
  let ms: i64 = t[1].parse().map_err(|_| "bad-millis".to_string())?;
  let ts = chrono::DateTime::<chrono::Utc>::from_timestamp_millis(ms).ok_or("millis-out-of-range")?;
  let mut ev = LogEvent::new(level(t[0])?, sval(t[3])?, sval(t[4])?, opt(t[5])?);
  ev.timestamp = ts;
  ev.span_id = opt(t[6])?;
  ev.parent_id = opt(t[7])?;
  ev.thread_id = opt(t[8])?;
  ev.thread_name = opt(t[9])?;
  let ops = &t[10..];
  if ops.len() % 4 != 0 {
    return Err("ragged-ops".into());
  }
  for op in ops.chunks(4) {
    match op[0] {
      "d" => {}
      "f" => {
        let name = sval(op[1])?;
        let v = match op[2] {
          "S" => LogValue::String(sval(op[3])?),
          "D" => LogValue::Debug(sval(op[3])?),
          "I" => LogValue::Int(op[3].parse().map_err(|_| "bad-int".to_string())?),
          "B" => LogValue::Bool(op[3] == "1"),
          "F" => {
            let bits = op[3].split('/').next().unwrap_or("");
            LogValue::Float(f64::from_bits(u64::from_str_radix(bits, 16).map_err(|_| "bad-bits".to_string())?))
          }
          k => return Err(format!("bad-kind {k}")),
        };
        if ev.fields.insert(name, v).is_some() {
          return Err("dup-field".into());
        }
      }
      o => return Err(format!("bad-op {o}")),
    }
  }
  Ok(ev)
}

fn fmt_with(f: &dyn EventFormatter, ev: &LogEvent, only_status: bool) -> String {
  match catch_unwind(AssertUnwindSafe(|| f.format_event(ev))) {
    Err(_) => "PANIC".into(),
    Ok(Err(_)) => "ERR".into(),
    Ok(Ok(bytes)) => {
      if only_status {
        "OK".into()
      } else {
        hex(&bytes)
      }
    }
  }
}

fn run(toks: &[&str]) -> String {
  let r: Result<String, String> = (|| match toks[0] {
    "json" => {
      if toks.len() < 2 {
        return Err("short".into());
      }
      let flat = match toks[1] {
        "flat" => true,
        "nest" => false,
        m => return Err(format!("bad-mode {m}")),
      };
      let ev = event(&toks[2..])?;
      let f = JsonLinesFormatter::new(JsonLinesEncoderInternal { flatten_fields: flat });
      Ok(fmt_with(&f, &ev, false))
    }
    "pattern" => {
      if toks.len() < 3 {
        return Err("short".into());
      }
      let only_status = match toks[1] {
        "full" => false,
        "nopanic" => true,
        m => return Err(format!("bad-mode {m}")),
      };
      let pat = sval(toks[2])?;
      let ev = event(&toks[3..])?;
      // construction (regex scan + parse) is part of what must not panic
      match catch_unwind(AssertUnwindSafe(|| PatternFormatter::new(&pat))) {
        Err(_) => Ok("PANIC".into()),
        Ok(f) => Ok(fmt_with(&f, &ev, only_status)),
      }
    }
    k => Err(format!("bad-kind {k}")),
  })();
  match r {
    Ok(s) => s,
    Err(e) => format!("BADCASE {e}"),
  }
}

fn main() {
  seqdrv::main_loop(run);
}
