//! rv — line driver over the REAL rendezvous channels (fibre::{spsc,mpsc,mpmc}::rendezvous).
//! Same case format and output format as /verif/ocaml/eng_rv.ml (the extracted Coq model):
//!
//!   case:   <spsc|mpsc|mpmc> <s|a> <fixmask (ignored here)> op*
//!   ops:    ts H V | s H V | tr H | r H | rt H | cl H | dh H | cn H H2 | cv H | ob H
//!           | ms F H V | mr F H | p F W | df F
//!   output: per op "<result>[ w<waker>]*[ d<payload>]*" joined by " ; ".
//!
//! Every case runs on its own worker thread.  A blocking sync `s`/`r` that does not return within the
//! watchdog budget (30 s; VERIF_RV_WATCHDOG_MS) is the output `block` and the case is abandoned
//! (thread and objects leaked).  The generator never emits a call that parks and the shrinker's
//! candidates are sanitised (vlib/engines_rv.py::join), so the budget is a backstop for real hangs
//! only; no other op is timed.
//! Every op runs under catch_unwind: a panic is the output `PANIC`.
//!
//! Lifetimes: `SendFuture<'a, T>` / `RecvFuture<'a, T>` borrow the `Arc` field of the async handle
//! they were created from.  Handles live in a `Box` (stable address) inside the handle table, and
//! a handle that has live futures is never moved or dropped (`dh`/`cv` answer `na`, exactly what the
//! borrow checker enforces for safe callers), so extending the borrow to 'static is sound here.
use std::collections::BTreeMap;
use std::future::Future;
use std::panic::{catch_unwind, AssertUnwindSafe};
use std::pin::Pin;
use std::sync::mpsc::{channel, RecvTimeoutError, Sender};
use std::sync::{Arc, Mutex};
use std::task::{Context, Poll, Wake, Waker};
use std::time::Duration;

use fibre::error::{TryRecvError, TrySendError};
use fibre::{RecvErrorTimeout};

type Log = Arc<Mutex<Vec<u32>>>;

/// payload: an id plus the per-case drop log (Drop appends the id)
pub struct P {
  id: u32,
  log: Log,
}
impl Drop for P {
  fn drop(&mut self) {
    self.log.lock().unwrap().push(self.id);
  }
}
/// a payload handed back to the caller: report its id, do not count a drop
fn returned(p: P) -> u32 {
  let id = p.id;
  std::mem::forget(p);
  id
}

struct W {
  id: u32,
  log: Log,
}
impl Wake for W {
  fn wake(self: Arc<Self>) {
    self.log.lock().unwrap().push(self.id);
  }
  fn wake_by_ref(self: &Arc<Self>) {
    self.log.lock().unwrap().push(self.id);
  }
}

fn watchdog_ms() -> u64 {
  std::env::var("VERIF_RV_WATCHDOG_MS").ok().and_then(|s| s.parse().ok()).unwrap_or(30000)
}

macro_rules! mclone {
  (yes, $x:expr) => {
    Some(Box::new((**$x).clone()))
  };
  (no, $x:expr) => {{
    let _ = $x;
    None
  }};
}

macro_rules! flavour {
  ($m:ident, [$($p:ident)::+], $txc:ident, $rxc:ident) => {
    mod $m {
      use super::*;
      use $($p)::+::{
        rendezvous, rendezvous_async, RecvFuture, RendezvousAsyncReceiver as AR,
        RendezvousAsyncSender as AS, RendezvousSyncReceiver as SR, RendezvousSyncSender as SS,
        SendFuture,
      };

      enum H {
        SS(Box<SS<P>>),
        SR(Box<SR<P>>),
        AS(Box<AS<P>>),
        AR(Box<AR<P>>),
      }
      enum F {
        S(Pin<Box<SendFuture<'static, P>>>),
        R(Pin<Box<RecvFuture<'static, P>>>),
      }

      fn try_send_res(r: Result<(), TrySendError<P>>) -> String {
        match r {
          Ok(()) => "ok".into(),
          Err(TrySendError::Full(p)) => format!("full {}", returned(p)),
          Err(TrySendError::Closed(p)) => format!("closedv {}", returned(p)),
          Err(TrySendError::Sent(p)) => format!("sentv {}", returned(p)),
        }
      }
      fn try_recv_res(r: Result<P, TryRecvError>) -> String {
        match r {
          Ok(p) => format!("val {}", returned(p)),
          Err(TryRecvError::Empty) => "empty".into(),
          Err(TryRecvError::Disconnected) => "disc".into(),
        }
      }
      fn b(x: bool) -> &'static str {
        if x { "1" } else { "0" }
      }
      fn obs(closed: bool, len: usize, e: bool, f: bool, cap: Option<usize>) -> String {
        format!("obs {} {} {} {} {}", b(closed), len, b(e), b(f), cap.map(|c| c.to_string()).unwrap_or("none".into()))
      }

      pub fn case(t: &[&str], out: Sender<Option<String>>) {
        let dlog: Log = Arc::new(Mutex::new(Vec::new()));
        let wlog: Log = Arc::new(Mutex::new(Vec::new()));
        let mut hs: BTreeMap<u32, H> = BTreeMap::new();
        // futures: id -> (handle id, future)
        let mut fs: BTreeMap<u32, (u32, F)> = BTreeMap::new();
        if t[1] == "a" {
          let (a, r) = rendezvous_async::<P>();
          hs.insert(0, H::AS(Box::new(a)));
          hs.insert(1, H::AR(Box::new(r)));
        } else {
          let (a, r) = rendezvous::<P>();
          hs.insert(0, H::SS(Box::new(a)));
          hs.insert(1, H::SR(Box::new(r)));
        }
        let num = |s: &str| -> u32 { s.parse().expect("number") };
        let mut i = 3;
        while i < t.len() {
          let opname = t[i];
          let ar = arity(opname);
          let a: Vec<u32> = t[i + 1..i + ar].iter().map(|s| num(s)).collect();
          i += ar;
          dlog.lock().unwrap().clear();
          wlog.lock().unwrap().clear();
          let mkp = |v: u32| P { id: v, log: dlog.clone() };
          let res = catch_unwind(AssertUnwindSafe(|| -> String {
            match opname {
              "ts" => match hs.get(&a[0]) {
                Some(H::SS(x)) => try_send_res(x.try_send(mkp(a[1]))),
                Some(H::AS(x)) => try_send_res(x.try_send(mkp(a[1]))),
                _ => "na".into(),
              },
              "s" => match hs.get(&a[0]) {
                Some(H::SS(x)) => match x.send(mkp(a[1])) {
                  Ok(()) => "ok".into(),
                  Err(fibre::SendError::Closed) => "closed".into(),
                  Err(fibre::SendError::Sent) => "sent".into(),
                },
                _ => "na".into(),
              },
              "tr" => match hs.get(&a[0]) {
                Some(H::SR(x)) => try_recv_res(x.try_recv()),
                Some(H::AR(x)) => try_recv_res(x.try_recv()),
                _ => "na".into(),
              },
              "r" => match hs.get(&a[0]) {
                Some(H::SR(x)) => match x.recv() {
                  Ok(p) => format!("val {}", returned(p)),
                  Err(_) => "disc".into(),
                },
                _ => "na".into(),
              },
              "rt" => match hs.get(&a[0]) {
                Some(H::SR(x)) => match x.recv_timeout(Duration::ZERO) {
                  Ok(p) => format!("val {}", returned(p)),
                  Err(RecvErrorTimeout::Disconnected) => "disc".into(),
                  Err(RecvErrorTimeout::Timeout) => "timeout".into(),
                },
                _ => "na".into(),
              },
              "cl" => {
                let r = match hs.get(&a[0]) {
                  Some(H::SS(x)) => x.close(),
                  Some(H::SR(x)) => x.close(),
                  Some(H::AS(x)) => x.close(),
                  Some(H::AR(x)) => x.close(),
                  None => return "na".into(),
                };
                if r.is_ok() { "ok".into() } else { "closeerr".into() }
              }
              "dh" => {
                if !hs.contains_key(&a[0]) || fs.values().any(|(h, _)| *h == a[0]) {
                  return "na".into();
                }
                let h = hs.remove(&a[0]).unwrap();
                drop(h);
                "none".into()
              }
              "cn" => {
                if hs.contains_key(&a[1]) {
                  return "na".into();
                }
                let n = match hs.get(&a[0]) {
                  Some(H::SS(x)) => mclone!($txc, x).map(H::SS),
                  Some(H::AS(x)) => mclone!($txc, x).map(H::AS),
                  Some(H::SR(x)) => mclone!($rxc, x).map(H::SR),
                  Some(H::AR(x)) => mclone!($rxc, x).map(H::AR),
                  None => None,
                };
                match n {
                  Some(h) => {
                    hs.insert(a[1], h);
                    "none".into()
                  }
                  None => "na".into(),
                }
              }
              "cv" => {
                if !hs.contains_key(&a[0]) || fs.values().any(|(h, _)| *h == a[0]) {
                  return "na".into();
                }
                let h = hs.remove(&a[0]).unwrap();
                let n = match h {
                  H::SS(x) => H::AS(Box::new((*x).to_async())),
                  H::SR(x) => H::AR(Box::new((*x).to_async())),
                  H::AS(x) => H::SS(Box::new((*x).to_sync())),
                  H::AR(x) => H::SR(Box::new((*x).to_sync())),
                };
                hs.insert(a[0], n);
                "none".into()
              }
              "ob" => match hs.get(&a[0]) {
                Some(H::SS(x)) => obs(x.is_closed(), x.len(), x.is_empty(), x.is_full(), x.capacity()),
                Some(H::SR(x)) => obs(x.is_closed(), x.len(), x.is_empty(), x.is_full(), x.capacity()),
                Some(H::AS(x)) => obs(x.is_closed(), x.len(), x.is_empty(), x.is_full(), x.capacity()),
                Some(H::AR(x)) => obs(x.is_closed(), x.len(), x.is_empty(), x.is_full(), x.capacity()),
                None => "na".into(),
              },
              "ms" => {
                if fs.contains_key(&a[0]) {
                  return "na".into();
                }
                match hs.get(&a[1]) {
                  Some(H::AS(x)) => {
                    let h: &AS<P> = &**x;
                    // see the module comment: the Box keeps the handle's address stable and the
                    // handle outlives the future
                    let h: &'static AS<P> = unsafe { &*(h as *const AS<P>) };
                    fs.insert(a[0], (a[1], F::S(Box::pin(h.send(mkp(a[2]))))));
                    "none".into()
                  }
                  _ => "na".into(),
                }
              }
              "mr" => {
                if fs.contains_key(&a[0]) {
                  return "na".into();
                }
                match hs.get(&a[1]) {
                  Some(H::AR(x)) => {
                    let h: &AR<P> = &**x;
                    let h: &'static AR<P> = unsafe { &*(h as *const AR<P>) };
                    fs.insert(a[0], (a[1], F::R(Box::pin(h.recv()))));
                    "none".into()
                  }
                  _ => "na".into(),
                }
              }
              "p" => match fs.get_mut(&a[0]) {
                None => "na".into(),
                Some((_, f)) => {
                  let waker = Waker::from(Arc::new(W { id: a[1], log: wlog.clone() }));
                  let mut cx = Context::from_waker(&waker);
                  match f {
                    F::S(f) => match f.as_mut().poll(&mut cx) {
                      Poll::Pending => "pending".into(),
                      Poll::Ready(Ok(())) => "rok".into(),
                      Poll::Ready(Err(fibre::SendError::Closed)) => "rclosed".into(),
                      Poll::Ready(Err(fibre::SendError::Sent)) => "rsent".into(),
                    },
                    F::R(f) => match f.as_mut().poll(&mut cx) {
                      Poll::Pending => "pending".into(),
                      Poll::Ready(Ok(p)) => format!("rval {}", returned(p)),
                      Poll::Ready(Err(_)) => "rdisc".into(),
                    },
                  }
                }
              },
              "df" => match fs.remove(&a[0]) {
                None => "na".into(),
                Some(f) => {
                  drop(f);
                  "none".into()
                }
              },
              other => format!("BADOP-{other}"),
            }
          }))
          .unwrap_or_else(|_| "PANIC".into());
          let mut s = res;
          for w in wlog.lock().unwrap().iter() {
            s.push_str(&format!(" w{w}"));
          }
          for d in dlog.lock().unwrap().iter() {
            s.push_str(&format!(" d{d}"));
          }
          if out.send(Some(s)).is_err() {
            return;
          }
        }
        // silent teardown of whatever the case left alive: futures before handles; each drop on
        // its own so that a panicking Drop (count underflow) cannot turn into a double panic
        let keys: Vec<u32> = fs.keys().cloned().collect();
        for k in keys {
          let f = fs.remove(&k);
          let _ = catch_unwind(AssertUnwindSafe(move || drop(f)));
        }
        let keys: Vec<u32> = hs.keys().cloned().collect();
        for k in keys {
          let h = hs.remove(&k);
          let _ = catch_unwind(AssertUnwindSafe(move || drop(h)));
        }
        let _ = out.send(None);
      }
    }
  };
}

flavour!(spsc, [fibre::spsc::rendezvous], no, no);
flavour!(mpsc, [fibre::mpsc::rendezvous], yes, no);
flavour!(mpmc, [fibre::mpmc::rendezvous], yes, yes);

fn arity(op: &str) -> usize {
  match op {
    "ts" | "s" | "cn" | "mr" | "p" => 3,
    "ms" => 4,
    _ => 2,
  }
}

fn run(toks: &[&str]) -> String {
  if toks.len() < 3 {
    return "BADCASE".into();
  }
  // which ops may park the calling thread: only the blocking sync forms.  Only those are waited
  // for under the watchdog budget; every other op cannot block, so no wall-clock enters the result.
  let mut may_block: Vec<bool> = Vec::new();
  let mut i = 3;
  while i < toks.len() {
    may_block.push(toks[i] == "s" || toks[i] == "r");
    i += arity(toks[i]);
  }
  let owned: Vec<String> = toks.iter().map(|s| s.to_string()).collect();
  let (tx, rx) = channel::<Option<String>>();
  let worker = std::thread::Builder::new().stack_size(1 << 20).spawn(move || {
    let t: Vec<&str> = owned.iter().map(|s| s.as_str()).collect();
    match t[0] {
      "spsc" => spsc::case(&t, tx),
      "mpsc" => mpsc::case(&t, tx),
      "mpmc" => mpmc::case(&t, tx),
      _ => {
        let _ = tx.send(Some("BADFLAVOUR".into()));
        let _ = tx.send(None);
      }
    }
  });
  if worker.is_err() {
    return "DRIVER-NO-THREAD".into();
  }
  let mut outs: Vec<String> = Vec::new();
  let budget = Duration::from_millis(watchdog_ms());
  loop {
    let k = outs.len();
    let r = if k < may_block.len() && may_block[k] {
      rx.recv_timeout(budget)
    } else {
      rx.recv().map_err(|_| RecvTimeoutError::Disconnected)
    };
    match r {
      Ok(Some(s)) => outs.push(s),
      Ok(None) => break,
      Err(RecvTimeoutError::Timeout) => {
        outs.push("block".into());
        break;
      }
      Err(RecvTimeoutError::Disconnected) => {
        outs.push("DRIVER-THREAD-DIED".into());
        break;
      }
    }
  }
  outs.join(" ; ")
}

fn main() {
  seqdrv::main_loop(run);
}
