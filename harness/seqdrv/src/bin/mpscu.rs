//! E-CHANOPS-mpscu (exe `mpscu`): drive fibre::mpsc::unbounded / unbounded_async through the public API.
//!
//! case:   <flavor s|a> <fixflags> <op>*        (fixflags are for the model only)
//! ops:    ts h v | sd h v | tr h | rc h | rt h | cl h | dr h | cn h h2 | tos h | toa h
//!         ln h | ie h | ic h | sc h
//!         ms f h v | mr f h | pl f w | df f | pn h w
//!         tsb h n v.. | sdb h n v.. | tsm h n v.. | sdm h n v.. | trb h max | rcb h max
//!         msb f h n v.. | mrb f h max
//! output: one token group per op joined by " ; ": <result> {!waker}* {~dropped id}*
//! Mirrors /verif/ocaml/eng_mpscu.ml exactly.
//!
//! Sending and the AsyncReceiver's receive methods take `&mut self`, and futures hold that `&mut`:
//! the driver refuses (prints `bad`, as the model does) every direct call on a handle while a future
//! on it is alive, so the `'static` `&mut` handed to a future is never aliased.  Handles live in
//! `Box`es that do not move while borrowed.
use fibre::error::{BatchSendErrorReason, RecvError, RecvErrorTimeout, SendError, TryRecvError, TrySendError};
use fibre::mpsc::{
  self, UnboundedAsyncReceiver, UnboundedAsyncSender, UnboundedSyncReceiver, UnboundedSyncSender,
};
use futures_util::Stream;
use std::cell::RefCell;
use std::future::Future;
use std::io::{self, Read, Write};
use std::panic::{catch_unwind, AssertUnwindSafe};
use std::pin::Pin;
use std::sync::atomic::{AtomicUsize, Ordering};
use std::sync::{Arc, Mutex};
use std::task::{Context, Poll, Wake, Waker};
use std::time::Duration;

thread_local! {
  static DROPS: RefCell<Vec<u32>> = const { RefCell::new(Vec::new()) };
}
static WAKES: Mutex<Vec<u32>> = Mutex::new(Vec::new());

struct P(u32);
impl Drop for P {
  fn drop(&mut self) {
    DROPS.with(|d| d.borrow_mut().push(self.0));
  }
}
/// a value handed to the caller (received, or handed back inside an error): not a channel drop
fn take(p: P) -> u32 {
  let id = p.0;
  std::mem::forget(p);
  id
}

struct CountWaker(u32);
impl Wake for CountWaker {
  fn wake(self: Arc<Self>) {
    WAKES.lock().unwrap().push(self.0);
  }
  fn wake_by_ref(self: &Arc<Self>) {
    WAKES.lock().unwrap().push(self.0);
  }
}

enum H {
  STx(UnboundedSyncSender<P>),
  ATx(UnboundedAsyncSender<P>),
  SRx(UnboundedSyncReceiver<P>),
  ARx(UnboundedAsyncReceiver<P>),
  Gone,
}

type BF<O> = Pin<Box<dyn Future<Output = O>>>;
enum F {
  Send(BF<Result<(), SendError>>),
  Recv(BF<Result<P, RecvError>>),
  SendB(BF<Result<usize, fibre::error::SendBatchError<P>>>),
  RecvB(BF<Result<Vec<P>, RecvError>>),
}
struct FEnt {
  h: usize,
  fut: F,
}

const NH: usize = 16;
const NF: usize = 16;

struct World {
  hs: Vec<Option<Box<H>>>,
  fs: Vec<Option<FEnt>>,
  used: std::collections::HashSet<u32>,
  wakers: Vec<Waker>,
  /// handles whose close() returned Ok (Receiver::is_closed ignores that flag)
  closed: Vec<bool>,
}

fn ids(v: &[u32]) -> String {
  v.iter().map(|x| x.to_string()).collect::<Vec<_>>().join(",")
}

impl World {
  fn new(flavor: &str) -> World {
    let mut hs: Vec<Option<Box<H>>> = (0..NH).map(|_| None).collect();
    if flavor == "a" {
      let (tx, rx) = mpsc::unbounded_async::<P>();
      hs[0] = Some(Box::new(H::ATx(tx)));
      hs[1] = Some(Box::new(H::ARx(rx)));
    } else {
      let (tx, rx) = mpsc::unbounded::<P>();
      hs[0] = Some(Box::new(H::STx(tx)));
      hs[1] = Some(Box::new(H::SRx(rx)));
    }
    World {
      hs,
      fs: (0..NF).map(|_| None).collect(),
      used: Default::default(),
      wakers: (0..8).map(|i| Waker::from(Arc::new(CountWaker(i)))).collect(),
      closed: vec![false; NH],
    }
  }
  fn live_futs(&self, h: usize) -> bool {
    self.fs.iter().any(|f| f.as_ref().is_some_and(|e| e.h == h))
  }
  /// a handle that exists and is not borrowed by a future
  fn hm(&mut self, h: usize) -> Option<&mut H> {
    if self.live_futs(h) {
      return None;
    }
    self.hs.get_mut(h).and_then(|x| x.as_deref_mut())
  }
  fn fresh(&self, vs: &[u32]) -> bool {
    let mut seen = std::collections::HashSet::new();
    vs.iter().all(|v| !self.used.contains(v) && seen.insert(*v))
  }
}

fn show_try_send(r: Result<(), TrySendError<P>>) -> String {
  match r {
    Ok(()) => "ok".into(),
    Err(TrySendError::Full(p)) => format!("full {}", take(p)),
    Err(TrySendError::Closed(p)) => format!("closed {}", take(p)),
    Err(TrySendError::Sent(p)) => format!("sent {}", take(p)),
  }
}
fn show_try_recv(r: Result<P, TryRecvError>) -> String {
  match r {
    Ok(p) => format!("v {}", take(p)),
    Err(TryRecvError::Empty) => "empty".into(),
    Err(TryRecvError::Disconnected) => "disc".into(),
  }
}
fn show_vs(v: Vec<P>) -> String {
  let l: Vec<u32> = v.into_iter().map(take).collect();
  format!("vs [{}]", ids(&l))
}
fn show_tsb(r: Result<usize, fibre::error::TrySendBatchError<P>>) -> String {
  match r {
    Ok(n) => format!("bok {n}"),
    Err(e) => {
      let un: Vec<u32> = e.unsent.into_iter().map(take).collect();
      let why = match e.reason {
        BatchSendErrorReason::Full => "full",
        BatchSendErrorReason::Closed => "closed",
      };
      format!("berr {} {} [{}]", e.sent, why, ids(&un))
    }
  }
}
fn show_sb(r: Result<usize, fibre::error::SendBatchError<P>>) -> String {
  match r {
    Ok(n) => format!("bok {n}"),
    Err(e) => {
      let un: Vec<u32> = e.unsent.into_iter().map(take).collect();
      format!("berr {} closed [{}]", e.sent, ids(&un))
    }
  }
}

/// executes one op starting at toks[i]; returns (tokens consumed, result text)
fn exec(w: &mut World, toks: &[&str], i: usize) -> (usize, String) {
  let num = |k: usize| toks[i + k].parse::<usize>().unwrap();
  let op = toks[i];
  let bad = |n: usize| (n, "bad".to_string());
  match op {
    "ts" | "sd" => {
      let (h, v) = (num(1), num(2) as u32);
      if !w.fresh(&[v]) {
        return bad(3);
      }
      let r = match (op, w.hm(h)) {
        ("ts", Some(H::STx(t))) => show_try_send(t.try_send(P(v))),
        ("ts", Some(H::ATx(t))) => show_try_send(t.try_send(P(v))),
        ("sd", Some(H::STx(t))) => match t.send(P(v)) {
          Ok(()) => "ok".into(),
          Err(_) => "closed".into(),
        },
        _ => return bad(3),
      };
      w.used.insert(v);
      (3, r)
    }
    "tr" | "rc" | "rt" => {
      let h = num(1);
      let own_closed = w.closed.get(h).copied().unwrap_or(false);
      let r = match (op, w.hm(h)) {
        ("tr", Some(H::SRx(r))) => show_try_recv(r.try_recv()),
        ("tr", Some(H::ARx(r))) => show_try_recv(r.try_recv()),
        // a blocking form that certainly has to wait is not executed (public observers only): the
        // same token as the model's; anything else that sticks is caught by the watchdog as HANG
        ("rc", Some(H::SRx(r))) if !own_closed && r.is_empty() && r.sender_count() > 0 => "WOULDBLOCK".into(),
        ("rc", Some(H::SRx(r))) => match r.recv() {
          Ok(p) => format!("v {}", take(p)),
          Err(_) => "disc".into(),
        },
        ("rt", Some(H::SRx(r))) => match r.recv_timeout(Duration::ZERO) {
          Ok(p) => format!("v {}", take(p)),
          Err(RecvErrorTimeout::Disconnected) => "disc".into(),
          Err(RecvErrorTimeout::Timeout) => "timeout".into(),
        },
        _ => return bad(2),
      };
      (2, r)
    }
    "cl" => {
      let h = num(1);
      let r = match w.hm(h) {
        Some(H::STx(t)) => t.close().is_ok(),
        Some(H::ATx(t)) => t.close().is_ok(),
        Some(H::SRx(t)) => t.close().is_ok(),
        Some(H::ARx(t)) => t.close().is_ok(),
        _ => return bad(2),
      };
      if r {
        w.closed[h] = true;
      }
      (2, if r { "ok".into() } else { "cerr".into() })
    }
    "dr" => {
      let h = num(1);
      if w.hm(h).is_none() {
        return bad(2);
      }
      w.hs[h] = None;
      w.closed[h] = false;
      (2, "ok".into())
    }
    "cn" => {
      let (h, h2) = (num(1), num(2));
      if h2 >= NH || w.hs[h2].is_some() {
        return bad(3);
      }
      let n = match w.hm(h) {
        Some(H::STx(t)) => H::STx(t.clone()),
        Some(H::ATx(t)) => H::ATx(t.clone()),
        _ => return bad(3),
      };
      w.hs[h2] = Some(Box::new(n));
      (3, "ok".into())
    }
    "tos" | "toa" => {
      let h = num(1);
      let ok = matches!(
        (op, w.hm(h)),
        ("tos", Some(H::ATx(_))) | ("tos", Some(H::ARx(_))) | ("toa", Some(H::STx(_))) | ("toa", Some(H::SRx(_)))
      );
      if !ok {
        return bad(2);
      }
      let b = w.hs[h].as_mut().unwrap();
      let old = std::mem::replace(&mut **b, H::Gone);
      **b = match old {
        H::STx(t) => H::ATx(t.to_async()),
        H::ATx(t) => H::STx(t.to_sync()),
        H::SRx(t) => H::ARx(t.to_async()),
        H::ARx(t) => H::SRx(t.to_sync()),
        H::Gone => H::Gone,
      };
      (2, "ok".into())
    }
    "ln" | "ie" | "ic" | "sc" => {
      let h = num(1);
      macro_rules! obs {
        ($t:expr) => {
          match op {
            "ln" => format!("n {}", $t.len()),
            "sc" => format!("n {}", $t.sender_count()),
            "ie" => format!("b {}", $t.is_empty() as u8),
            _ => format!("b {}", $t.is_closed() as u8),
          }
        };
      }
      let r = match w.hm(h) {
        Some(H::STx(t)) => obs!(t),
        Some(H::ATx(t)) => obs!(t),
        Some(H::SRx(t)) => obs!(t),
        Some(H::ARx(t)) => obs!(t),
        _ => return bad(2),
      };
      (2, r)
    }
    "ms" => {
      let (f, h, v) = (num(1), num(2), num(3) as u32);
      if f >= NF || w.fs[f].is_some() || !w.fresh(&[v]) {
        return bad(4);
      }
      let fut: BF<Result<(), SendError>> = match w.hm(h) {
        Some(H::ATx(t)) => {
          let t: &'static mut UnboundedAsyncSender<P> = unsafe { &mut *(t as *mut _) };
          Box::pin(t.send(P(v)))
        }
        _ => return bad(4),
      };
      w.used.insert(v);
      w.fs[f] = Some(FEnt { h, fut: F::Send(fut) });
      (4, "ok".into())
    }
    "mr" => {
      let (f, h) = (num(1), num(2));
      if f >= NF || w.fs[f].is_some() {
        return bad(3);
      }
      let fut: BF<Result<P, RecvError>> = match w.hm(h) {
        Some(H::ARx(t)) => {
          let t: &'static mut UnboundedAsyncReceiver<P> = unsafe { &mut *(t as *mut _) };
          Box::pin(t.recv())
        }
        _ => return bad(3),
      };
      w.fs[f] = Some(FEnt { h, fut: F::Recv(fut) });
      (3, "ok".into())
    }
    "msb" => {
      let (f, h, n) = (num(1), num(2), num(3));
      let vs: Vec<u32> = (0..n).map(|k| num(4 + k) as u32).collect();
      if f >= NF || w.fs[f].is_some() || !w.fresh(&vs) {
        return bad(4 + n);
      }
      let fut: BF<Result<usize, fibre::error::SendBatchError<P>>> = match w.hm(h) {
        Some(H::ATx(t)) => {
          let t: &'static mut UnboundedAsyncSender<P> = unsafe { &mut *(t as *mut _) };
          Box::pin(t.send_batch(vs.iter().map(|v| P(*v)).collect()))
        }
        _ => return bad(4 + n),
      };
      w.used.extend(vs);
      w.fs[f] = Some(FEnt { h, fut: F::SendB(fut) });
      (4 + n, "ok".into())
    }
    "mrb" => {
      let (f, h, max) = (num(1), num(2), num(3));
      if f >= NF || w.fs[f].is_some() {
        return bad(4);
      }
      let fut: BF<Result<Vec<P>, RecvError>> = match w.hm(h) {
        Some(H::ARx(t)) => {
          let t: &'static mut UnboundedAsyncReceiver<P> = unsafe { &mut *(t as *mut _) };
          Box::pin(t.recv_batch(max))
        }
        _ => return bad(4),
      };
      w.fs[f] = Some(FEnt { h, fut: F::RecvB(fut) });
      (4, "ok".into())
    }
    "pl" => {
      let (f, wk) = (num(1), num(2));
      if f >= NF || w.fs[f].is_none() || wk >= w.wakers.len() {
        return bad(3);
      }
      let waker = w.wakers[wk].clone();
      let mut cx = Context::from_waker(&waker);
      let e = w.fs[f].as_mut().unwrap();
      let r = match &mut e.fut {
        F::Send(fu) => match fu.as_mut().poll(&mut cx) {
          Poll::Pending => "pending".into(),
          Poll::Ready(Ok(())) => "ready ok".into(),
          Poll::Ready(Err(_)) => "ready closed".into(),
        },
        F::Recv(fu) => match fu.as_mut().poll(&mut cx) {
          Poll::Pending => "pending".into(),
          Poll::Ready(Ok(p)) => format!("ready v {}", take(p)),
          Poll::Ready(Err(_)) => "ready disc".into(),
        },
        F::SendB(fu) => match fu.as_mut().poll(&mut cx) {
          Poll::Pending => "pending".into(),
          Poll::Ready(r) => format!("ready {}", show_sb(r)),
        },
        F::RecvB(fu) => match fu.as_mut().poll(&mut cx) {
          Poll::Pending => "pending".into(),
          Poll::Ready(Ok(v)) => format!("ready {}", show_vs(v)),
          Poll::Ready(Err(_)) => "ready disc".into(),
        },
      };
      (3, r)
    }
    "df" => {
      let f = num(1);
      if f >= NF || w.fs[f].is_none() {
        return bad(2);
      }
      w.fs[f] = None;
      (2, "ok".into())
    }
    "pn" => {
      let (h, wk) = (num(1), num(2));
      if wk >= w.wakers.len() {
        return bad(3);
      }
      let waker = w.wakers[wk].clone();
      let mut cx = Context::from_waker(&waker);
      let r = match w.hm(h) {
        Some(H::ARx(t)) => match Pin::new(t).poll_next(&mut cx) {
          Poll::Pending => "pending".to_string(),
          Poll::Ready(Some(p)) => format!("ready v {}", take(p)),
          Poll::Ready(None) => "ready disc".into(),
        },
        _ => return bad(3),
      };
      (3, r)
    }
    "tsb" | "tsm" | "sdb" | "sdm" => {
      let (h, n) = (num(1), num(2));
      let vs: Vec<u32> = (0..n).map(|k| num(3 + k) as u32).collect();
      if !w.fresh(&vs) {
        return bad(3 + n);
      }
      let mutres = |r: Result<usize, SendError>, rest: Vec<P>| {
        let un: Vec<u32> = rest.into_iter().map(take).collect();
        match r {
          Ok(k) => format!("mok {} [{}]", k, ids(&un)),
          Err(_) => format!("mclosed [{}]", ids(&un)),
        }
      };
      let mk = |vs: &[u32]| -> Vec<P> { vs.iter().map(|v| P(*v)).collect() };
      let r = match (op, w.hm(h)) {
        ("tsb", Some(H::STx(t))) => show_tsb(t.try_send_batch(mk(&vs))),
        ("tsb", Some(H::ATx(t))) => show_tsb(t.try_send_batch(mk(&vs))),
        ("sdb", Some(H::STx(t))) => show_sb(t.send_batch(mk(&vs))),
        ("tsm", Some(H::STx(t))) => {
          let mut it = mk(&vs);
          let r = t.try_send_batch_mut(&mut it);
          mutres(r, it)
        }
        ("tsm", Some(H::ATx(t))) => {
          let mut it = mk(&vs);
          let r = t.try_send_batch_mut(&mut it);
          mutres(r, it)
        }
        ("sdm", Some(H::STx(t))) => {
          let mut it = mk(&vs);
          let r = t.send_batch_mut(&mut it);
          mutres(r, it)
        }
        _ => return bad(3 + n),
      };
      w.used.extend(vs);
      (3 + n, r)
    }
    "trb" | "rcb" => {
      let (h, max) = (num(1), num(2));
      let own_closed = w.closed.get(h).copied().unwrap_or(false);
      let r = match (op, w.hm(h)) {
        ("trb", Some(H::SRx(t))) => t.try_recv_batch(max).map_err(|e| e == TryRecvError::Empty),
        ("trb", Some(H::ARx(t))) => t.try_recv_batch(max).map_err(|e| e == TryRecvError::Empty),
        ("rcb", Some(H::SRx(t))) if max > 0 && !own_closed && t.is_empty() && t.sender_count() > 0 => {
          return (3, "WOULDBLOCK".into())
        }
        ("rcb", Some(H::SRx(t))) => t.recv_batch(max).map_err(|_| false),
        _ => return bad(3),
      };
      (
        3,
        match r {
          Ok(v) => show_vs(v),
          Err(true) => "empty".into(),
          Err(false) => "disc".into(),
        },
      )
    }
    _ => panic!("unknown op {op}"),
  }
}

fn arity(toks: &[&str], i: usize) -> usize {
  match toks[i] {
    "tr" | "rc" | "rt" | "cl" | "dr" | "tos" | "toa" | "ln" | "ie" | "ic" | "sc" | "df" => 2,
    "ts" | "sd" | "cn" | "mr" | "pl" | "pn" | "trb" | "rcb" => 3,
    "ms" | "mrb" => 4,
    "tsb" | "tsm" | "sdb" | "sdm" => 3 + toks[i + 2].parse::<usize>().unwrap(),
    "msb" => 4 + toks[i + 3].parse::<usize>().unwrap(),
    _ => usize::MAX,
  }
}

static PROGRESS: AtomicUsize = AtomicUsize::new(0);

fn run(toks: &[&str], partial: &Mutex<String>) -> String {
  let mut w = World::new(toks[0]);
  DROPS.with(|d| d.borrow_mut().clear());
  WAKES.lock().unwrap().clear();
  let mut outs: Vec<String> = Vec::new();
  let mut i = 2;
  while i < toks.len() {
    PROGRESS.fetch_add(1, Ordering::SeqCst);
    let r = catch_unwind(AssertUnwindSafe(|| exec(&mut w, toks, i)));
    let (adv, mut s) = match r {
      Ok(x) => x,
      Err(_) => (arity(toks, i), "PANIC".to_string()),
    };
    for wk in WAKES.lock().unwrap().drain(..) {
      s.push_str(&format!(" !{wk}"));
    }
    let mut dl: Vec<u32> = DROPS.with(|d| d.borrow_mut().drain(..).collect());
    dl.sort();
    for d in dl {
      s.push_str(&format!(" ~{d}"));
    }
    outs.push(s);
    *partial.lock().unwrap() = outs.join(" ; ");
    if adv == usize::MAX {
      break;
    }
    i += adv;
  }
  PROGRESS.fetch_add(1, Ordering::SeqCst);
  // silent teardown of whatever the case left alive (futures before handles)
  let _ = catch_unwind(AssertUnwindSafe(|| {
    for f in w.fs.iter_mut() {
      *f = None;
    }
    for h in w.hs.iter_mut() {
      *h = None;
    }
  }));
  outs.join(" ; ")
}

fn main() {
  std::panic::set_hook(Box::new(|_| {}));
  let mut input = String::new();
  io::stdin().read_to_string(&mut input).unwrap();
  let lines: Vec<String> = input.lines().map(|s| s.to_string()).collect();
  let total = lines.len();
  let done = Arc::new(AtomicUsize::new(0));
  let partial = Arc::new(Mutex::new(String::new()));
  // watchdog: a sequential op that does not return within 2 s is the output HANG; the rest of this
  // shard is abandoned (each remaining case prints SKIPPED-AFTER-HANG) - only ever reached on a defect.
  {
    let done = done.clone();
    let partial = partial.clone();
    std::thread::spawn(move || {
      let mut last = (usize::MAX, usize::MAX);
      let mut stuck = 0;
      loop {
        std::thread::sleep(Duration::from_millis(250));
        let cur = (done.load(Ordering::SeqCst), PROGRESS.load(Ordering::SeqCst));
        if cur == last {
          stuck += 1;
        } else {
          stuck = 0;
          last = cur;
        }
        if stuck >= 120 && cur.0 < total {
          let out = io::stdout();
          let mut o = out.lock();
          let p = partial.lock().unwrap().clone();
          let _ = writeln!(o, "{}{}HANG", p, if p.is_empty() { "" } else { " ; " });
          for _ in cur.0 + 1..total {
            let _ = writeln!(o, "SKIPPED-AFTER-HANG");
          }
          let _ = o.flush();
          std::process::exit(0);
        }
      }
    });
  }
  for line in &lines {
    let toks: Vec<&str> = line.split_whitespace().collect();
    *partial.lock().unwrap() = String::new();
    let res = if toks.is_empty() { String::new() } else { run(&toks, &partial) };
    let out = io::stdout();
    let mut o = out.lock();
    writeln!(o, "{res}").unwrap();
    o.flush().unwrap();
    drop(o);
    done.fetch_add(1, Ordering::SeqCst);
  }
}
