//! Engine `roller` (exe `roller`): drive the REAL fibre_logging rolling-file writer
//! (`fibre_logging::verif::CustomRoller`, hook H5) with an injected clock in a scratch directory and
//! print the directory after every operation in the canonical form of /verif/ocaml/eng_roller.ml.
//!
//! case:   <gran> <maxsize|-> <retained|-> <maxuncompressed|-> <prefix> <fsuffix|_> <csuffix|_> <p0> <off0> <foreign|->
//!         foreign = comma list of files pre-created before the appender starts, file i holding the marker
//!         record (900+i)/5:  t:<p>:<s> = "<prefix>_time.<period>.<s><fsuffix>",  x:<p>:<s> = "<prefix>x.<period>.<s><fsuffix>",
//!         d:<p>:<s> = "<prefix>.extra.<period>.<s><fsuffix>"  (sibling appenders sharing the prefix),  u = "unrelated.dat";
//!         they are listed as F<i>=<recs> while they keep their name
//!         ( w <period> <off> <id> <len> | r <period> <off> | f )*
//! output: "<res> <listing>" after start, after every op, and after the final drop, joined by " | ".
//!
//! Scratch directories live under <verif>/.build/tmp/roller (derived from the executable's location,
//! or $VERIF_TMP); never under /tmp.  Each case gets a fresh directory which is removed afterwards.
use chrono::{DateTime, Duration, NaiveDateTime, TimeZone, Utc};
use fibre_logging::config::processed::{CompressionPolicyInternal, RollingPolicyInternal};
use fibre_logging::verif::CustomRoller;
use std::cell::Cell;
use std::fs;
use std::io::{Read, Write};
use std::panic::{catch_unwind, AssertUnwindSafe};
use std::path::{Path, PathBuf};

thread_local! { static COUNTER: Cell<u64> = Cell::new(0); }

fn tmp_root() -> PathBuf {
  if let Ok(v) = std::env::var("VERIF_TMP") {
    return PathBuf::from(v).join("roller");
  }
  let exe = std::env::current_exe().expect("current_exe");
  let mut cur: Option<&Path> = Some(exe.as_path());
  while let Some(p) = cur {
    if p.file_name().map_or(false, |n| n == ".build") {
      return p.join("tmp").join("roller");
    }
    cur = p.parent();
  }
  panic!("roller driver: cannot locate <verif>/.build from {:?}; set VERIF_TMP", exe);
}

struct Gran {
  name: String,
  base: DateTime<Utc>,
  unit_secs: i64,
  fmt: &'static str,
}

fn gran(name: &str) -> Gran {
  // bases chosen so that small period indices cross day / month / leap-day / year boundaries
  let (base, unit, fmt) = match name {
    "minutely" => (Utc.with_ymd_and_hms(2024, 2, 29, 23, 50, 0).unwrap(), 60, "%Y-%m-%d_%H-%M-%S"),
    "hourly" => (Utc.with_ymd_and_hms(2024, 2, 28, 20, 0, 0).unwrap(), 3600, "%Y-%m-%d_%H-%M-%S"),
    "daily" => (Utc.with_ymd_and_hms(2024, 2, 27, 0, 0, 0).unwrap(), 86400, "%Y-%m-%d"),
    // "never": instants still move (daily steps) but the roller must ignore them
    "never" => (Utc.with_ymd_and_hms(2024, 2, 27, 0, 0, 0).unwrap(), 86400, "%Y-%m-%d"),
    _ => panic!("bad granularity {name}"),
  };
  Gran { name: name.to_string(), base, unit_secs: unit, fmt }
}

impl Gran {
  /// instant number `off` inside period `p`: 0 = first instant, 1 = middle, 2 = last nanosecond, 3 = first + 1ns
  fn instant(&self, p: i64, off: i64) -> DateTime<Utc> {
    let start = self.base + Duration::seconds(self.unit_secs * p);
    match off {
      0 => start,
      1 => start + Duration::seconds(self.unit_secs / 2),
      2 => start + Duration::seconds(self.unit_secs) - Duration::nanoseconds(1),
      _ => start + Duration::nanoseconds(1),
    }
  }
  /// period string of a rolled file name -> period index (None if it is not a period start of this granularity)
  fn index_of(&self, s: &str) -> Option<i64> {
    let ts = if self.fmt == "%Y-%m-%d" {
      chrono::NaiveDate::parse_from_str(s, self.fmt).ok()?.and_hms_opt(0, 0, 0)?
    } else {
      NaiveDateTime::parse_from_str(s, self.fmt).ok()?
    };
    let ts = Utc.from_utc_datetime(&ts);
    if self.name == "never" {
      return if ts == DateTime::<Utc>::UNIX_EPOCH { Some(0) } else { None };
    }
    let d = (ts - self.base).num_seconds();
    if d >= 0 && d % self.unit_secs == 0 { Some(d / self.unit_secs) } else { None }
  }
}

fn record_bytes(id: u64, len: usize) -> Vec<u8> {
  // "<id>xxxx\n", exactly `len` bytes (len >= digits + 1; the generator guarantees it)
  let mut v = id.to_string().into_bytes();
  assert!(len == 0 || len > v.len(), "record length too small for its id");
  if len == 0 {
    return Vec::new();
  }
  while v.len() < len - 1 {
    v.push(b'x');
  }
  v.push(b'\n');
  v
}

/// file bytes -> "id/len,id/len" ; anything that is not a whole record becomes "?<len>"
fn decode(bytes: &[u8]) -> String {
  let mut out: Vec<String> = Vec::new();
  let mut i = 0;
  while i < bytes.len() {
    let end = bytes[i..].iter().position(|&b| b == b'\n').map(|k| i + k + 1);
    match end {
      Some(e) => {
        let body = &bytes[i..e - 1];
        let nd = body.iter().take_while(|b| b.is_ascii_digit()).count();
        let ok = nd > 0 && nd <= 18 && body[nd..].iter().all(|&b| b == b'x');
        if ok {
          out.push(format!("{}/{}", std::str::from_utf8(&body[..nd]).unwrap(), e - i));
        } else {
          out.push(format!("?{}", e - i));
        }
        i = e;
      }
      None => {
        out.push(format!("?{}", bytes.len() - i));
        i = bytes.len();
      }
    }
  }
  out.join(",")
}

struct Names {
  prefix: String,
  fsuffix: String,
  csuffix: String,
  foreign: Vec<String>,
}

/// real file name -> canonical token (sort key, text).  Unparseable names stay visible as X<raw>.
fn canon_name(n: &Names, g: &Gran, file: &str) -> ((u8, i64, i64, u8), String, bool) {
  let active = format!("{}{}", n.prefix, n.fsuffix);
  if file == active {
    return ((0, 0, 0, 0), "A".to_string(), false);
  }
  if let Some(i) = n.foreign.iter().position(|f| f == file) {
    return ((3, i as i64, 0, 0), format!("F{}", i), false);
  }
  let parse = |rest: &str, z: bool| -> Option<((u8, i64, i64, u8), String, bool)> {
    let rest = rest.strip_suffix(n.fsuffix.as_str())?;
    let rest = rest.strip_prefix(n.prefix.as_str())?.strip_prefix('.')?;
    let dot = rest.rfind('.')?;
    let (per, seq) = (&rest[..dot], &rest[dot + 1..]);
    if seq.is_empty() || !seq.bytes().all(|b| b.is_ascii_digit()) || (seq.len() > 1 && seq.starts_with('0')) {
      return None;
    }
    let s: i64 = seq.parse().ok()?;
    let p = g.index_of(per)?;
    Some(((1, p, s, z as u8), format!("{}{}.{}", if z { "Z" } else { "R" }, p, s), z))
  };
  if !n.csuffix.is_empty() {
    if let Some(stripped) = file.strip_suffix(n.csuffix.as_str()) {
      if let Some(r) = parse(stripped, true) {
        return r;
      }
    }
  }
  if let Some(r) = parse(file, false) {
    return r;
  }
  ((4, 0, 0, 0), format!("X{}", file), false)
}

fn listing(dir: &Path, n: &Names, g: &Gran) -> String {
  let mut ents: Vec<((u8, i64, i64, u8), String, String)> = Vec::new();
  let rd = match fs::read_dir(dir) {
    Ok(r) => r,
    Err(_) => return "NODIR".to_string(),
  };
  for e in rd {
    let e = e.unwrap();
    let fname = e.file_name().into_string().unwrap_or_else(|_| "?".to_string());
    let (k, tok, z) = canon_name(n, g, &fname);
    let raw = fs::read(e.path()).unwrap_or_default();
    let data = if z {
      let mut d = Vec::new();
      match flate2::read::GzDecoder::new(&raw[..]).read_to_end(&mut d) {
        Ok(_) => decode(&d),
        Err(_) => format!("?gz{}", raw.len()),
      }
    } else {
      decode(&raw)
    };
    ents.push((k, tok, data));
  }
  ents.sort();
  ents.iter().map(|(_, t, d)| format!("{}={}", t, d)).collect::<Vec<_>>().join(" ")
}

fn run(toks: &[&str]) -> String {
  let num = |s: &str| s.parse::<i64>().unwrap();
  let opt = |s: &str| if s == "-" { None } else { Some(s.parse::<u64>().unwrap()) };
  let g = gran(toks[0]);
  let unders = |s: &str| if s == "_" { String::new() } else { s.to_string() };
  let mut names = Names { prefix: toks[4].to_string(), fsuffix: unders(toks[5]), csuffix: unders(toks[6]), foreign: Vec::new() };
  let c = COUNTER.with(|c| {
    c.set(c.get() + 1);
    c.get()
  });
  let dir = tmp_root().join(format!("{}_{}", std::process::id(), c));
  let _ = fs::remove_dir_all(&dir);
  fs::create_dir_all(&dir).expect("create scratch dir");
  let policy = RollingPolicyInternal {
    directory: dir.clone(),
    file_name_prefix: names.prefix.clone(),
    file_name_suffix: names.fsuffix.clone(),
    time_granularity: g.name.clone(),
    max_file_size: opt(toks[1]),
    max_retained_sequences: opt(toks[2]).map(|v| v as u32),
    compression: opt(toks[3]).map(|k| CompressionPolicyInternal {
      compressed_file_suffix: names.csuffix.clone(),
      max_uncompressed_sequences: k as u32,
    }),
  };
  // foreign files (sibling appenders sharing the prefix, unrelated files) exist before the appender starts
  if toks[9] != "-" {
    for (i, spec) in toks[9].split(',').enumerate() {
      let f: Vec<&str> = spec.split(':').collect();
      let name = if f[0] == "u" {
        "unrelated.dat".to_string()
      } else {
        let per = policy.format_period(g.instant(num(f[1]), 0));
        let stem = match f[0] {
          "t" => format!("{}_time", names.prefix),
          "x" => format!("{}x", names.prefix),
          "d" => format!("{}.extra", names.prefix),
          k => panic!("bad foreign kind {k}"),
        };
        format!("{}.{}.{}{}", stem, per, f[2], names.fsuffix)
      };
      fs::write(dir.join(&name), record_bytes(900 + i as u64, 5)).expect("create foreign file");
      names.foreign.push(name);
    }
  }
  // with compression off the roller still recognises DEFAULT ".gz" files; none exist here
  let list_names = Names {
    prefix: names.prefix.clone(),
    fsuffix: names.fsuffix.clone(),
    csuffix: if policy.compression.is_some() { names.csuffix.clone() } else { ".gz".to_string() },
    foreign: names.foreign.clone(),
  };
  let mut outs: Vec<String> = Vec::new();
  let mut roller: Option<CustomRoller> = None;
  let start = catch_unwind(AssertUnwindSafe(|| {
    CustomRoller::verif_new_at_time(policy.clone(), g.instant(num(toks[7]), num(toks[8])))
  }));
  let mut dead = false;
  match start {
    Ok(Ok(r)) => {
      roller = Some(r);
      outs.push(format!("ok {}", listing(&dir, &list_names, &g)));
    }
    Ok(Err(_)) => {
      outs.push(format!("E {}", listing(&dir, &list_names, &g)));
      dead = true;
    }
    Err(_) => {
      outs.push("PANIC".to_string());
      dead = true;
    }
  }
  let mut i = 10;
  while !dead && i < toks.len() {
    let (adv, res) = match toks[i] {
      "w" => {
        let now = g.instant(num(toks[i + 1]), num(toks[i + 2]));
        let buf = record_bytes(toks[i + 3].parse().unwrap(), toks[i + 4].parse().unwrap());
        let r = catch_unwind(AssertUnwindSafe(|| {
          // what Write::write_all does, with the injected clock
          let w = roller.as_mut().unwrap();
          let mut rest: &[u8] = &buf;
          let mut calls = 0u32;
          loop {
            calls += 1;
            match w.verif_write_at_time(rest, now) {
              Ok(k) if k == rest.len() => return if calls == 1 { "ok".to_string() } else { format!("ok*{calls}") },
              Ok(0) => return "E0".to_string(),
              Ok(k) => rest = &rest[k..],
              Err(_) => return "E".to_string(),
            }
          }
        }));
        (5, r.unwrap_or_else(|_| "PANIC".to_string()))
      }
      "r" => {
        let now = g.instant(num(toks[i + 1]), num(toks[i + 2]));
        let r = catch_unwind(AssertUnwindSafe(|| {
          drop(roller.take()); // BufWriter flushes on drop
          match CustomRoller::verif_new_at_time(policy.clone(), now) {
            Ok(r) => {
              roller = Some(r);
              "ok".to_string()
            }
            Err(_) => "E".to_string(),
          }
        }));
        (3, r.unwrap_or_else(|_| "PANIC".to_string()))
      }
      "f" => {
        let r = catch_unwind(AssertUnwindSafe(|| match roller.as_mut().unwrap().flush() {
          Ok(()) => "ok".to_string(),
          Err(_) => "E".to_string(),
        }));
        (1, r.unwrap_or_else(|_| "PANIC".to_string()))
      }
      t => panic!("bad op token {t}"),
    };
    i += adv;
    if res == "PANIC" || roller.is_none() {
      outs.push(res);
      dead = true;
    } else {
      outs.push(format!("{} {}", res, listing(&dir, &list_names, &g)));
    }
  }
  if !dead {
    drop(roller.take());
    outs.push(format!("end {}", listing(&dir, &list_names, &g)));
  }
  let _ = fs::remove_dir_all(&dir);
  outs.join(" | ")
}

fn main() {
  seqdrv::main_loop(run);
}
