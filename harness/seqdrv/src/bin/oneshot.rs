//! oneshot — line driver over the REAL fibre::oneshot channel.
//! Mirrors /verif/ocaml/eng_oneshot.ml token for token (docs/oneshot.md has the case format).
//!
//! case:   <cfg> <op>*        (cfg is read by the model driver only)
//! ops:    sd H | cs H | cl H | ds H | os H | tr | cr | dr | or | mk F | pr F W | xr F
//! output: one group per op and per implicit teardown op (all futures, all senders in id order, the
//!         receiver), joined by " ; ":  <result> [w:<wakers woken>] [d:<payload ids dropped by the library>]
//!
//! Payloads handed back to the caller (received, or returned inside an error) are `mem::forget`-ed after
//! their id is printed, so the drop log holds exactly the drops performed by library code.
//! Receive futures borrow the boxed receiver; the borrow is extended to 'static through a raw pointer and
//! the receiver is never dropped while a future is alive (`busy`, like the model).
use fibre::error::{TryRecvError, TrySendError};
use fibre::oneshot::{oneshot, Receiver, Sender};
use std::cell::RefCell;
use std::collections::BTreeMap;
use std::future::Future;
use std::panic::{catch_unwind, AssertUnwindSafe};
use std::pin::Pin;
use std::sync::{Arc, Mutex};
use std::task::{Context, Poll, Wake, Waker};

thread_local! {
  static DROPS: RefCell<Vec<usize>> = RefCell::new(Vec::new());
}
struct P(usize);
impl Drop for P {
  fn drop(&mut self) {
    DROPS.with(|d| d.borrow_mut().push(self.0));
  }
}
fn take(p: P) -> usize {
  let id = p.0;
  std::mem::forget(p);
  id
}
struct W {
  id: usize,
  log: Arc<Mutex<Vec<usize>>>,
}
impl Wake for W {
  fn wake(self: Arc<Self>) {
    self.log.lock().unwrap().push(self.id);
  }
  fn wake_by_ref(self: &Arc<Self>) {
    self.log.lock().unwrap().push(self.id);
  }
}
type Fut = Pin<Box<dyn Future<Output = Result<P, fibre::error::RecvError>>>>;

struct Case {
  snd: BTreeMap<usize, Sender<P>>,
  nexth: usize,
  rcv: Option<Box<Receiver<P>>>,
  futs: Vec<(usize, Fut)>,
  next: usize,
  wlog: Arc<Mutex<Vec<usize>>>,
}
fn b(x: bool) -> &'static str {
  if x { "1" } else { "0" }
}

impl Case {
  fn op(&mut self, t: &str, a: usize, w: usize) -> String {
    match t {
      "sd" => match self.snd.remove(&a) {
        None => "gone".into(),
        Some(h) => {
          let p = P(self.next);
          self.next += 1;
          match h.send(p) {
            Ok(()) => "ok".into(),
            Err(TrySendError::Closed(p)) => format!("closed {}", take(p)),
            Err(TrySendError::Sent(p)) => format!("sent {}", take(p)),
            Err(TrySendError::Full(p)) => format!("full {}", take(p)),
          }
        }
      },
      "cs" => match self.snd.get(&a) {
        None => "gone".into(),
        Some(h) => if h.close().is_ok() { "ok".into() } else { "closeerr".into() },
      },
      "cl" => match self.snd.get(&a) {
        None => "gone".into(),
        Some(h) => {
          let c = h.clone();
          self.snd.insert(self.nexth, c);
          self.nexth += 1;
          "ok".into()
        }
      },
      "ds" => match self.snd.remove(&a) {
        None => "gone".into(),
        Some(h) => {
          drop(h);
          "ok".into()
        }
      },
      "os" => match self.snd.get(&a) {
        None => "gone".into(),
        Some(h) => format!("obs {} {}", b(h.is_closed()), b(h.is_sent())),
      },
      "tr" => match &self.rcv {
        None => "gone".into(),
        Some(r) => match r.try_recv() {
          Ok(p) => format!("v {}", take(p)),
          Err(TryRecvError::Empty) => "empty".into(),
          Err(TryRecvError::Disconnected) => "disc".into(),
        },
      },
      "cr" => match &self.rcv {
        None => "gone".into(),
        Some(r) => if r.close().is_ok() { "ok".into() } else { "closeerr".into() },
      },
      "dr" => {
        if self.rcv.is_none() {
          return "gone".into();
        }
        if !self.futs.is_empty() {
          return "busy".into();
        }
        self.rcv = None;
        "ok".into()
      }
      "or" => match &self.rcv {
        None => "gone".into(),
        Some(r) => format!("obs {}", b(r.is_closed())),
      },
      "mk" => match &self.rcv {
        None => "gone".into(),
        Some(r) => {
          if self.futs.iter().any(|(f, _)| *f == a) {
            return "busy".into();
          }
          // SAFETY: the boxed receiver outlives every future (dr answers busy while futures exist)
          let rr: &'static Receiver<P> = unsafe { &*(&**r as *const Receiver<P>) };
          self.futs.push((a, Box::pin(rr.recv())));
          "ok".into()
        }
      },
      "pr" => {
        let Some(ix) = self.futs.iter().position(|(f, _)| *f == a) else { return "nofut".into() };
        let wk = Waker::from(Arc::new(W { id: w, log: self.wlog.clone() }));
        let mut cx = Context::from_waker(&wk);
        match self.futs[ix].1.as_mut().poll(&mut cx) {
          Poll::Pending => "pending".into(),
          Poll::Ready(r) => {
            let fut = self.futs.remove(ix);
            drop(fut);
            match r {
              Ok(p) => format!("v {}", take(p)),
              Err(_) => "disc".into(),
            }
          }
        }
      }
      "xr" => {
        let Some(ix) = self.futs.iter().position(|(f, _)| *f == a) else { return "nofut".into() };
        let fut = self.futs.remove(ix);
        drop(fut);
        "ok".into()
      }
      _ => format!("BADOP {t}"),
    }
  }
}

fn arity(t: &str) -> usize {
  match t {
    "sd" | "cs" | "cl" | "ds" | "os" | "mk" | "xr" => 1,
    "pr" => 2,
    _ => 0,
  }
}

fn run(toks: &[&str]) -> String {
  DROPS.with(|d| d.borrow_mut().clear());
  let (s, r) = oneshot::<P>();
  let mut snd = BTreeMap::new();
  snd.insert(0usize, s);
  let mut c = Case { snd, nexth: 1, rcv: Some(Box::new(r)), futs: Vec::new(), next: 0, wlog: Arc::new(Mutex::new(Vec::new())) };
  let mut ops: Vec<(String, usize, usize)> = Vec::new();
  let mut i = 1;
  while i < toks.len() {
    let t = toks[i].to_string();
    let k = arity(&t);
    let a = if k >= 1 { toks.get(i + 1).and_then(|x| x.parse().ok()).unwrap_or(0) } else { 0 };
    let w = if k >= 2 { toks.get(i + 2).and_then(|x| x.parse().ok()).unwrap_or(0) } else { 0 };
    ops.push((t, a, w));
    i += 1 + k;
  }
  let mut out: Vec<String> = Vec::new();
  let mut do_op = |c: &mut Case, t: &str, a: usize, w: usize, out: &mut Vec<String>| -> bool {
    let res = catch_unwind(AssertUnwindSafe(|| c.op(t, a, w)));
    let mut g = match res {
      Ok(s) => s,
      Err(_) => {
        out.push("PANIC".into());
        return false;
      }
    };
    let wl: Vec<usize> = std::mem::take(&mut *c.wlog.lock().unwrap());
    let d: Vec<usize> = DROPS.with(|d| std::mem::take(&mut *d.borrow_mut()));
    if !wl.is_empty() {
      g.push_str(&format!(" w:{}", wl.iter().map(|x| x.to_string()).collect::<Vec<_>>().join(",")));
    }
    if !d.is_empty() {
      g.push_str(&format!(" d:{}", d.iter().map(|x| x.to_string()).collect::<Vec<_>>().join(",")));
    }
    out.push(g);
    true
  };
  for (t, a, w) in ops {
    if !do_op(&mut c, &t, a, w, &mut out) {
      std::mem::forget(c);
      return out.join(" ; ");
    }
  }
  // implicit teardown: futures, senders in id order, receiver
  let fs: Vec<usize> = c.futs.iter().map(|(f, _)| *f).collect();
  for f in fs {
    if !do_op(&mut c, "xr", f, 0, &mut out) {
      std::mem::forget(c);
      return out.join(" ; ");
    }
  }
  let hs: Vec<usize> = c.snd.keys().cloned().collect();
  for h in hs {
    if !do_op(&mut c, "ds", h, 0, &mut out) {
      std::mem::forget(c);
      return out.join(" ; ");
    }
  }
  do_op(&mut c, "dr", 0, 0, &mut out);
  out.join(" ; ")
}

fn main() {
  seqdrv::main_loop(run);
}
