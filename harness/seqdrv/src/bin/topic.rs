//! E-CHANOPS-topic (exe `topic`): drive fibre::spmc::topic through its public API.
//!
//! case:   <fx> <s|a> <cap> op*        (fx = model fix switches, ignored here: the code is what it is)
//! ops:    pub S T V | cls S S2 | xs S | ds S | cvs S | ics S
//!         sub R T | uns R T | clr R R2 | xr R | dr R | cvr R
//!         try R | rto R | mk F R | poll F W | df F | pn R W | icr R | emp R | cap R
//! output: one token group per op joined by " ; "; wakers woken by the op are appended as ` wN` (sorted).
//!
//! Futures returned by `AsyncTopicReceiver::recv` borrow the receiver.  The receiver lives in a `Box`
//! (stable address) and the future's lifetime is erased with a transmute; `dr`/`cvr`/`pn` on a
//! receiver that still has live futures answer `busy` and do nothing (the borrow checker would reject
//! such a program), so the erased borrow is never dangling.  At case end futures are dropped first.
use fibre::error::{RecvError, RecvErrorTimeout, TryRecvError};
use fibre::spmc::topic::{self, AsyncTopicReceiver, AsyncTopicSender, TopicReceiver, TopicSender};
use futures_util::Stream;
use std::collections::{BTreeMap, HashSet};
use std::future::Future;
use std::panic::{catch_unwind, AssertUnwindSafe};
use std::pin::Pin;
use std::sync::{Arc, Mutex};
use std::task::{Context, Poll, Wake, Waker};
use std::time::Duration;

type K = u64;
type V = u64;

enum Tx {
  S(TopicSender<K, V>),
  A(AsyncTopicSender<K, V>),
}
enum Rx {
  S(TopicReceiver<K, V>),
  A(Box<AsyncTopicReceiver<K, V>>),
}
type Fut = Pin<Box<dyn Future<Output = Result<(K, V), RecvError>>>>;

static WAKES: Mutex<Vec<u64>> = Mutex::new(Vec::new());

struct CountWaker(u64);
impl Wake for CountWaker {
  fn wake(self: Arc<Self>) {
    WAKES.lock().unwrap().push(self.0);
  }
  fn wake_by_ref(self: &Arc<Self>) {
    WAKES.lock().unwrap().push(self.0);
  }
}

struct World {
  tx: BTreeMap<u64, Tx>,
  rx: BTreeMap<u64, Rx>,
  futs: BTreeMap<u64, (u64, Fut)>,
  tx_used: HashSet<u64>,
  rx_used: HashSet<u64>,
  wakers: BTreeMap<u64, Waker>,
}

impl World {
  fn waker(&mut self, id: u64) -> Waker {
    self.wakers.entry(id).or_insert_with(|| Waker::from(Arc::new(CountWaker(id)))).clone()
  }
  fn rx_busy(&self, r: u64) -> bool {
    self.futs.values().any(|(o, _)| *o == r)
  }
}

fn b(x: bool) -> String {
  if x { "true".into() } else { "false".into() }
}

fn step(w: &mut World, t: &[&str], i: usize) -> (usize, String) {
  let num = |k: usize| t[i + k].parse::<u64>().unwrap();
  match t[i] {
    "pub" => {
      let (s, tp, v) = (num(1), num(2), num(3));
      let o = match w.tx.get(&s) {
        None => "nohandle".to_string(),
        Some(Tx::S(h)) => match h.send(tp, v) { Ok(()) => "ok".into(), Err(_) => "closed".into() },
        Some(Tx::A(h)) => match h.send(tp, v) { Ok(()) => "ok".into(), Err(_) => "closed".into() },
      };
      (4, o)
    }
    "cls" => {
      let (s, s2) = (num(1), num(2));
      let o = if !w.tx.contains_key(&s) {
        "nohandle"
      } else if w.tx_used.contains(&s2) {
        "badid"
      } else {
        match w.tx.get(&s) {
          Some(Tx::S(h)) => {
            let c = h.clone();
            w.tx.insert(s2, Tx::S(c));
            w.tx_used.insert(s2);
            "ok"
          }
          // AsyncTopicSender has no Clone impl
          _ => "noapi",
        }
      };
      (3, o.to_string())
    }
    "xs" => {
      let o = match w.tx.get(&num(1)) {
        None => "nohandle",
        Some(Tx::S(h)) => if h.close().is_ok() { "ok" } else { "closeerr" },
        Some(Tx::A(h)) => if h.close().is_ok() { "ok" } else { "closeerr" },
      };
      (2, o.to_string())
    }
    "ds" => {
      let o = match w.tx.remove(&num(1)) {
        None => "nohandle",
        Some(h) => { drop(h); "ok" }
      };
      (2, o.to_string())
    }
    "cvs" => {
      let s = num(1);
      let o = match w.tx.remove(&s) {
        None => "nohandle",
        Some(Tx::S(h)) => { w.tx.insert(s, Tx::A(h.to_async())); "ok" }
        Some(Tx::A(h)) => { w.tx.insert(s, Tx::S(h.to_sync())); "ok" }
      };
      (2, o.to_string())
    }
    "ics" => {
      let o = match w.tx.get(&num(1)) {
        None => "nohandle".to_string(),
        Some(Tx::S(h)) => b(h.is_closed()),
        Some(Tx::A(h)) => b(h.is_closed()),
      };
      (2, o)
    }
    "sub" => {
      let (r, tp) = (num(1), num(2));
      let o = match w.rx.get(&r) {
        None => "nohandle",
        Some(Rx::S(h)) => { h.subscribe(tp); "ok" }
        Some(Rx::A(h)) => { h.subscribe(tp); "ok" }
      };
      (3, o.to_string())
    }
    "uns" => {
      let (r, tp) = (num(1), num(2));
      let o = match w.rx.get(&r) {
        None => "nohandle",
        Some(Rx::S(h)) => { h.unsubscribe(&tp); "ok" }
        Some(Rx::A(h)) => { h.unsubscribe(&tp); "ok" }
      };
      (3, o.to_string())
    }
    "clr" => {
      let (r, r2) = (num(1), num(2));
      let o = if !w.rx.contains_key(&r) {
        "nohandle"
      } else if w.rx_used.contains(&r2) {
        "badid"
      } else {
        let n = match w.rx.get(&r).unwrap() {
          Rx::S(h) => Rx::S(h.clone()),
          Rx::A(h) => Rx::A(Box::new((**h).clone())),
        };
        w.rx.insert(r2, n);
        w.rx_used.insert(r2);
        "ok"
      };
      (3, o.to_string())
    }
    "xr" => {
      let o = match w.rx.get(&num(1)) {
        None => "nohandle",
        Some(Rx::S(h)) => if h.close().is_ok() { "ok" } else { "closeerr" },
        Some(Rx::A(h)) => if h.close().is_ok() { "ok" } else { "closeerr" },
      };
      (2, o.to_string())
    }
    "dr" => {
      let r = num(1);
      let o = if !w.rx.contains_key(&r) {
        "nohandle"
      } else if w.rx_busy(r) {
        "busy"
      } else {
        drop(w.rx.remove(&r));
        "ok"
      };
      (2, o.to_string())
    }
    "cvr" => {
      let r = num(1);
      let o = if !w.rx.contains_key(&r) {
        "nohandle"
      } else if w.rx_busy(r) {
        "busy"
      } else {
        let n = match w.rx.remove(&r).unwrap() {
          Rx::S(h) => Rx::A(Box::new(h.to_async())),
          Rx::A(h) => Rx::S((*h).to_sync()),
        };
        w.rx.insert(r, n);
        "ok"
      };
      (2, o.to_string())
    }
    "try" => {
      let res = match w.rx.get(&num(1)) {
        None => None,
        Some(Rx::S(h)) => Some(h.try_recv()),
        Some(Rx::A(h)) => Some(h.try_recv()),
      };
      let o = match res {
        None => "nohandle".to_string(),
        Some(Ok((k, v))) => format!("val {k} {v}"),
        Some(Err(TryRecvError::Empty)) => "empty".into(),
        Some(Err(TryRecvError::Disconnected)) => "disc".into(),
      };
      (2, o)
    }
    "rto" => {
      let o = match w.rx.get(&num(1)) {
        None => "nohandle".to_string(),
        Some(Rx::A(_)) => "noapi".into(),
        Some(Rx::S(h)) => match h.recv_timeout(Duration::ZERO) {
          Ok((k, v)) => format!("val {k} {v}"),
          Err(RecvErrorTimeout::Timeout) => "timeout".into(),
          Err(RecvErrorTimeout::Disconnected) => "disc".into(),
        },
      };
      (2, o)
    }
    "mk" => {
      let (f, r) = (num(1), num(2));
      let o = match w.rx.get(&r) {
        None => "nohandle",
        Some(Rx::S(_)) => "noapi",
        Some(Rx::A(h)) => {
          if w.futs.contains_key(&f) {
            "badid"
          } else {
            let hp: *const AsyncTopicReceiver<K, V> = &**h;
            // SAFETY: the Box keeps the receiver at a stable address and it is neither dropped,
            // converted nor mutably borrowed while a future created from it is alive (`busy`).
            let href: &'static AsyncTopicReceiver<K, V> = unsafe { &*hp };
            let fut: Fut = Box::pin(href.recv());
            w.futs.insert(f, (r, fut));
            "ok"
          }
        }
      };
      (3, o.to_string())
    }
    "poll" => {
      let (f, wk) = (num(1), num(2));
      let waker = w.waker(wk);
      let o = match w.futs.get_mut(&f) {
        None => "nohandle".to_string(),
        Some((_, fut)) => {
          let mut cx = Context::from_waker(&waker);
          match fut.as_mut().poll(&mut cx) {
            Poll::Pending => "pending".into(),
            Poll::Ready(Ok((k, v))) => format!("ready {k} {v}"),
            Poll::Ready(Err(RecvError::Disconnected)) => "ready disc".into(),
          }
        }
      };
      (3, o)
    }
    "df" => {
      let o = match w.futs.remove(&num(1)) {
        None => "nohandle",
        Some(x) => { drop(x); "ok" }
      };
      (2, o.to_string())
    }
    "pn" => {
      let (r, wk) = (num(1), num(2));
      let waker = w.waker(wk);
      let busy = w.rx_busy(r);
      let o = match w.rx.get_mut(&r) {
        None => "nohandle".to_string(),
        Some(Rx::S(_)) => "noapi".into(),
        Some(Rx::A(h)) => {
          if busy {
            "busy".into()
          } else {
            let mut cx = Context::from_waker(&waker);
            match Pin::new(&mut **h).poll_next(&mut cx) {
              Poll::Pending => "pending".into(),
              Poll::Ready(Some((k, v))) => format!("some {k} {v}"),
              Poll::Ready(None) => "none".into(),
            }
          }
        }
      };
      (3, o)
    }
    "icr" => {
      let o = match w.rx.get(&num(1)) {
        None => "nohandle".to_string(),
        Some(Rx::S(h)) => b(h.is_closed()),
        Some(Rx::A(h)) => b(h.is_closed()),
      };
      (2, o)
    }
    "emp" => {
      let o = match w.rx.get(&num(1)) {
        None => "nohandle".to_string(),
        Some(Rx::S(h)) => b(h.is_empty()),
        Some(Rx::A(h)) => b(h.is_empty()),
      };
      (2, o)
    }
    "cap" => {
      let o = match w.rx.get(&num(1)) {
        None => "nohandle".to_string(),
        Some(Rx::S(h)) => h.capacity().to_string(),
        Some(Rx::A(h)) => h.capacity().to_string(),
      };
      (2, o)
    }
    x => panic!("bad op token {x}"),
  }
}

fn run(toks: &[&str]) -> String {
  if toks.len() < 3 {
    return "DRIVER bad header".into();
  }
  let cap: usize = toks[2].parse().unwrap();
  let mut w = World {
    tx: BTreeMap::new(),
    rx: BTreeMap::new(),
    futs: BTreeMap::new(),
    tx_used: HashSet::new(),
    rx_used: HashSet::new(),
    wakers: BTreeMap::new(),
  };
  match toks[1] {
    "s" => {
      let (t, r) = topic::channel::<K, V>(cap);
      w.tx.insert(0, Tx::S(t));
      w.rx.insert(0, Rx::S(r));
    }
    "a" => {
      let (t, r) = topic::channel_async::<K, V>(cap);
      w.tx.insert(0, Tx::A(t));
      w.rx.insert(0, Rx::A(Box::new(r)));
    }
    _ => return "DRIVER bad kind".into(),
  }
  w.tx_used.insert(0);
  w.rx_used.insert(0);
  WAKES.lock().unwrap().clear();
  let mut outs: Vec<String> = Vec::new();
  let mut i = 3;
  while i < toks.len() {
    let r = catch_unwind(AssertUnwindSafe(|| step(&mut w, toks, i)));
    match r {
      Ok((adv, mut s)) => {
        let mut wk: Vec<u64> = std::mem::take(&mut *WAKES.lock().unwrap());
        wk.sort();
        for x in wk {
          s.push_str(&format!(" w{x}"));
        }
        outs.push(s);
        i += adv;
      }
      Err(_) => {
        outs.push("PANIC".to_string());
        break;
      }
    }
  }
  // teardown: futures first (they borrow receivers), then receivers, then senders
  let _ = catch_unwind(AssertUnwindSafe(|| {
    w.futs.clear();
    w.rx.clear();
    w.tx.clear();
  }));
  WAKES.lock().unwrap().clear();
  outs.join(" ; ")
}

fn main() {
  seqdrv::main_loop(run);
}
