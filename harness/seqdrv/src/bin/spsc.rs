//! spsc — line driver over the REAL fibre::spsc bounded channel (sync + async handles).
//! Mirrors /verif/ocaml/eng_spsc.ml token for token (see docs/spsc.md for the case format).
//!
//! case:   <cap> <s|a> <cfg> <op>*      (cfg is for the model only: which fixes it assumes)
//! output: one group per op (and per implicit teardown op xs xr ds dr), joined by " ; ":
//!         <result> [w:<waker ids woken during the op>] [d:<payload ids dropped by the library during the op>]
//!
//! Payloads carry a ticket id; a payload handed back to the caller (received, or returned in an
//! error / left in a `_mut` vector) is `mem::forget`-ed after its id is printed, so the drop log
//! contains exactly the drops performed by library code (channel, futures, error paths).
//!
//! Futures borrow their handle mutably; the handle is boxed and the borrow is extended to 'static
//! with a raw pointer.  The driver never touches a handle while a future on it is alive (it answers
//! `busy`, exactly like the model), and drops a future as soon as a poll returns Ready.
use fibre::error::{BatchSendErrorReason, RecvErrorTimeout, TryRecvError, TrySendError};
use fibre::spsc::{
  bounded_async, bounded_sync, BoundedAsyncReceiver, BoundedAsyncSender, BoundedSyncReceiver, BoundedSyncSender,
};
use futures_util::stream::Stream;
use std::cell::RefCell;
use std::future::Future;
use std::panic::{catch_unwind, AssertUnwindSafe};
use std::pin::Pin;
use std::sync::{mpsc, Arc, Mutex};
use std::task::{Context, Poll, Wake, Waker};
use std::time::Duration;

thread_local! {
  static DROPS: RefCell<Vec<usize>> = RefCell::new(Vec::new());
}

struct P(usize);
impl Drop for P {
  fn drop(&mut self) {
    DROPS.with(|d| d.borrow_mut().push(self.0));
  }
}
fn take(p: P) -> usize {
  let id = p.0;
  std::mem::forget(p);
  id
}
fn take_all(v: Vec<P>) -> Vec<usize> {
  v.into_iter().map(take).collect()
}
fn ids(v: &[usize]) -> String {
  format!("[{}]", v.iter().map(|x| x.to_string()).collect::<Vec<_>>().join(","))
}

struct W {
  id: usize,
  log: Arc<Mutex<Vec<usize>>>,
}
impl Wake for W {
  fn wake(self: Arc<Self>) {
    self.log.lock().unwrap().push(self.id);
  }
  fn wake_by_ref(self: &Arc<Self>) {
    self.log.lock().unwrap().push(self.id);
  }
}

enum S {
  Sync(BoundedSyncSender<P>),
  Async(Box<BoundedAsyncSender<P>>),
  Gone,
}
enum R {
  Sync(BoundedSyncReceiver<P>),
  Async(Box<BoundedAsyncReceiver<P>>),
  Gone,
}
type Fut<O> = Pin<Box<dyn Future<Output = O>>>;
enum SF {
  Send(Fut<Result<(), fibre::error::SendError>>),
  Batch(Fut<Result<usize, fibre::error::SendBatchError<P>>>),
  BatchMut(Fut<Result<usize, fibre::error::SendError>>, *mut Vec<P>),
}
enum RF {
  Recv(Fut<Result<P, fibre::error::RecvError>>),
  Batch(Fut<Result<Vec<P>, fibre::error::RecvError>>),
  BatchMut(Fut<Result<usize, fibre::error::RecvError>>, *mut Vec<P>),
}

struct Case {
  s: S,
  r: R,
  sf: Option<SF>,
  rf: Option<RF>,
  next: usize,
  wlog: Arc<Mutex<Vec<usize>>>,
}

fn b(x: bool) -> &'static str {
  if x { "1" } else { "0" }
}

impl Case {
  fn fresh(&mut self, n: usize) -> Vec<P> {
    let v: Vec<P> = (self.next..self.next + n).map(P).collect();
    self.next += n;
    v
  }
  fn waker(&self, id: usize) -> Waker {
    Waker::from(Arc::new(W { id, log: self.wlog.clone() }))
  }

  /// one op; `t` = op token, `a` = numeric argument (0 if none)
  fn op(&mut self, t: &str, a: usize) -> String {
    let sender_op = matches!(t, "ts" | "sd" | "tsb" | "sb" | "tsbm" | "sbm" | "cs" | "os" | "vs" | "ds" | "fs" | "fsb" | "fsbm");
    let recv_op = matches!(t, "tr" | "rc" | "rt" | "trb" | "trbm" | "rb" | "rbm" | "cr" | "or" | "vr" | "dr" | "fr" | "frb" | "frbm" | "nx");
    if sender_op {
      if matches!(self.s, S::Gone) {
        return "gone".into();
      }
      if self.sf.is_some() {
        return "busy".into();
      }
    }
    if recv_op {
      if matches!(self.r, R::Gone) {
        return "gone".into();
      }
      if self.rf.is_some() {
        return "busy".into();
      }
    }
    match t {
      // ---------------- sender
      "ts" => {
        let p = self.fresh(1).pop().unwrap();
        let r = match &mut self.s {
          S::Sync(h) => h.try_send(p),
          S::Async(h) => h.try_send(p),
          S::Gone => unreachable!(),
        };
        match r {
          Ok(()) => "ok".into(),
          Err(TrySendError::Full(p)) => format!("full {}", take(p)),
          Err(TrySendError::Closed(p)) => format!("closed {}", take(p)),
          Err(TrySendError::Sent(p)) => format!("sent {}", take(p)),
        }
      }
      "sd" => match &self.s {
        S::Sync(h) => {
          let p = P(self.next);
          self.next += 1;
          match h.send(p) {
            Ok(()) => "ok".into(),
            Err(fibre::error::SendError::Closed) => "closed".into(),
            Err(fibre::error::SendError::Sent) => "sent".into(),
          }
        }
        _ => "na".into(),
      },
      "tsb" => {
        if a == 0 {
          // the model allocates no ids for an empty batch
          let r = match &mut self.s {
            S::Sync(h) => h.try_send_batch(Vec::new()),
            S::Async(h) => h.try_send_batch(Vec::new()),
            S::Gone => unreachable!(),
          };
          return match r {
            Ok(n) => format!("ok {n}"),
            Err(e) => format!("tberr {} {} {}", e.sent, ids(&take_all(e.unsent)), reason(e.reason)),
          };
        }
        let v = self.fresh(a);
        let r = match &mut self.s {
          S::Sync(h) => h.try_send_batch(v),
          S::Async(h) => h.try_send_batch(v),
          S::Gone => unreachable!(),
        };
        match r {
          Ok(n) => format!("ok {n}"),
          Err(e) => format!("tberr {} {} {}", e.sent, ids(&take_all(e.unsent)), reason(e.reason)),
        }
      }
      "sb" => {
        if !matches!(self.s, S::Sync(_)) {
          return "na".into();
        }
        let v = self.fresh(a);
        match &self.s {
          S::Sync(h) => match h.send_batch(v) {
            Ok(n) => format!("ok {n}"),
            Err(e) => format!("berr {} {}", e.sent, ids(&take_all(e.unsent))),
          },
          _ => unreachable!(),
        }
      }
      "tsbm" => {
        let mut v = self.fresh(a);
        let r = match &mut self.s {
          S::Sync(h) => h.try_send_batch_mut(&mut v),
          S::Async(h) => h.try_send_batch_mut(&mut v),
          S::Gone => unreachable!(),
        };
        let rest = take_all(v);
        match r {
          Ok(n) => format!("mok {} {}", n, ids(&rest)),
          Err(fibre::error::SendError::Closed) => format!("mclosed {}", ids(&rest)),
          Err(fibre::error::SendError::Sent) => format!("msent {}", ids(&rest)),
        }
      }
      "sbm" => {
        if !matches!(self.s, S::Sync(_)) {
          return "na".into();
        }
        let mut v = self.fresh(a);
        let r = match &self.s {
          S::Sync(h) => h.send_batch_mut(&mut v),
          _ => unreachable!(),
        };
        let rest = take_all(v);
        match r {
          Ok(n) => format!("mok {} {}", n, ids(&rest)),
          Err(fibre::error::SendError::Closed) => format!("mclosed {}", ids(&rest)),
          Err(fibre::error::SendError::Sent) => format!("msent {}", ids(&rest)),
        }
      }
      "cs" => {
        let r = match &self.s {
          S::Sync(h) => h.close(),
          S::Async(h) => h.close(),
          S::Gone => unreachable!(),
        };
        if r.is_ok() { "ok".into() } else { "closeerr".into() }
      }
      "os" => {
        let (l, e, f, c, k) = match &self.s {
          S::Sync(h) => (h.len(), h.is_empty(), h.is_full(), h.is_closed(), h.capacity()),
          S::Async(h) => (h.len(), h.is_empty(), h.is_full(), h.is_closed(), h.capacity()),
          S::Gone => unreachable!(),
        };
        format!("obs {} {} {} {} {}", l, b(e), b(f), b(c), k)
      }
      "vs" => {
        self.s = match std::mem::replace(&mut self.s, S::Gone) {
          S::Sync(h) => S::Async(Box::new(h.to_async())),
          S::Async(h) => S::Sync((*h).to_sync()),
          S::Gone => unreachable!(),
        };
        "ok".into()
      }
      "ds" => {
        self.s = S::Gone;
        "ok".into()
      }
      "fs" | "fsb" | "fsbm" => {
        let hp: *mut BoundedAsyncSender<P> = match &mut self.s {
          S::Async(h) => &mut **h as *mut _,
          _ => return "na".into(),
        };
        // SAFETY: the boxed handle outlives the future (ops on it answer `busy` while self.sf is Some,
        // and teardown drops futures first); nothing else touches the handle meanwhile.
        let h: &'static mut BoundedAsyncSender<P> = unsafe { &mut *hp };
        self.sf = Some(match t {
          "fs" => {
            let p = self.fresh(1).pop().unwrap();
            SF::Send(Box::pin(h.send(p)))
          }
          "fsb" => {
            let v = self.fresh(a);
            SF::Batch(Box::pin(h.send_batch(v)))
          }
          _ => {
            let v: *mut Vec<P> = Box::into_raw(Box::new(self.fresh(a)));
            // SAFETY: the vector is reclaimed only after the future has been dropped
            let vr: &'static mut Vec<P> = unsafe { &mut *v };
            SF::BatchMut(Box::pin(h.send_batch_mut(vr)), v)
          }
        });
        "ok".into()
      }
      "ps" => {
        let w = self.waker(a);
        let mut cx = Context::from_waker(&w);
        let out = match &mut self.sf {
          None => return "nofut".into(),
          Some(SF::Send(f)) => match f.as_mut().poll(&mut cx) {
            Poll::Pending => return "pending".into(),
            Poll::Ready(Ok(())) => "ok".to_string(),
            Poll::Ready(Err(fibre::error::SendError::Closed)) => "closed".to_string(),
            Poll::Ready(Err(fibre::error::SendError::Sent)) => "sent".to_string(),
          },
          Some(SF::Batch(f)) => match f.as_mut().poll(&mut cx) {
            Poll::Pending => return "pending".into(),
            Poll::Ready(Ok(n)) => format!("ok {n}"),
            Poll::Ready(Err(e)) => format!("berr {} {}", e.sent, ids(&take_all(e.unsent))),
          },
          Some(SF::BatchMut(f, _)) => match f.as_mut().poll(&mut cx) {
            Poll::Pending => return "pending".into(),
            Poll::Ready(Ok(n)) => format!("mok {n}"),
            Poll::Ready(Err(fibre::error::SendError::Closed)) => "mclosed".to_string(),
            Poll::Ready(Err(fibre::error::SendError::Sent)) => "msent".to_string(),
          },
        };
        // Ready: drop the future now
        match self.sf.take() {
          Some(SF::BatchMut(f, v)) => {
            drop(f);
            let rest = take_all(*unsafe { Box::from_raw(v) });
            format!("{} {}", out, ids(&rest))
          }
          other => {
            drop(other);
            out
          }
        }
      }
      "xs" => match self.sf.take() {
        None => "nofut".into(),
        Some(SF::BatchMut(f, v)) => {
          drop(f);
          let rest = take_all(*unsafe { Box::from_raw(v) });
          format!("rest {}", ids(&rest))
        }
        Some(other) => {
          drop(other);
          "ok".into()
        }
      },
      // ---------------- receiver
      "tr" => {
        let r = match &mut self.r {
          R::Sync(h) => h.try_recv(),
          R::Async(h) => h.try_recv(),
          R::Gone => unreachable!(),
        };
        match r {
          Ok(p) => format!("v {}", take(p)),
          Err(TryRecvError::Empty) => "empty".into(),
          Err(TryRecvError::Disconnected) => "disc".into(),
        }
      }
      "rc" => match &self.r {
        R::Sync(h) => match h.recv() {
          Ok(p) => format!("v {}", take(p)),
          Err(_) => "disc".into(),
        },
        _ => "na".into(),
      },
      "rt" => match &mut self.r {
        R::Sync(h) => match h.recv_timeout(Duration::from_millis(0)) {
          Ok(p) => format!("v {}", take(p)),
          Err(RecvErrorTimeout::Timeout) => "timeout".into(),
          Err(RecvErrorTimeout::Disconnected) => "disc".into(),
        },
        _ => "na".into(),
      },
      "trb" => {
        let r = match &mut self.r {
          R::Sync(h) => h.try_recv_batch(a),
          R::Async(h) => h.try_recv_batch(a),
          R::Gone => unreachable!(),
        };
        match r {
          Ok(v) => format!("vs {}", ids(&take_all(v))),
          Err(TryRecvError::Empty) => "empty".into(),
          Err(TryRecvError::Disconnected) => "disc".into(),
        }
      }
      "trbm" => {
        let mut out = Vec::new();
        let r = match &mut self.r {
          R::Sync(h) => h.try_recv_batch_mut(&mut out, a),
          R::Async(h) => h.try_recv_batch_mut(&mut out, a),
          R::Gone => unreachable!(),
        };
        let got = take_all(out);
        match r {
          Ok(n) if n == got.len() => format!("vs {}", ids(&got)),
          Ok(n) => format!("vs-count-mismatch {} {}", n, ids(&got)),
          Err(TryRecvError::Empty) if got.is_empty() => "empty".into(),
          Err(TryRecvError::Disconnected) if got.is_empty() => "disc".into(),
          Err(_) => format!("err-with-values {}", ids(&got)),
        }
      }
      "rb" => match &self.r {
        R::Sync(h) => match h.recv_batch(a) {
          Ok(v) => format!("vs {}", ids(&take_all(v))),
          Err(_) => "disc".into(),
        },
        _ => "na".into(),
      },
      "rbm" => match &self.r {
        R::Sync(h) => {
          let mut out = Vec::new();
          let r = h.recv_batch_mut(&mut out, a);
          let got = take_all(out);
          match r {
            Ok(n) if n == got.len() => format!("vs {}", ids(&got)),
            Ok(n) => format!("vs-count-mismatch {} {}", n, ids(&got)),
            Err(_) if got.is_empty() => "disc".into(),
            Err(_) => format!("err-with-values {}", ids(&got)),
          }
        }
        _ => "na".into(),
      },
      "cr" => {
        let r = match &self.r {
          R::Sync(h) => h.close(),
          R::Async(h) => h.close(),
          R::Gone => unreachable!(),
        };
        if r.is_ok() { "ok".into() } else { "closeerr".into() }
      }
      "or" => {
        let (l, e, f, c, k) = match &self.r {
          R::Sync(h) => (h.len(), h.is_empty(), h.is_full(), h.is_closed(), h.capacity()),
          R::Async(h) => (h.len(), h.is_empty(), h.is_full(), h.is_closed(), h.capacity()),
          R::Gone => unreachable!(),
        };
        format!("obs {} {} {} {} {}", l, b(e), b(f), b(c), k)
      }
      "vr" => {
        self.r = match std::mem::replace(&mut self.r, R::Gone) {
          R::Sync(h) => R::Async(Box::new(h.to_async())),
          R::Async(h) => R::Sync((*h).to_sync()),
          R::Gone => unreachable!(),
        };
        "ok".into()
      }
      "dr" => {
        self.r = R::Gone;
        "ok".into()
      }
      "fr" | "frb" | "frbm" => {
        let hp: *mut BoundedAsyncReceiver<P> = match &mut self.r {
          R::Async(h) => &mut **h as *mut _,
          _ => return "na".into(),
        };
        // SAFETY: as for the sender futures
        let h: &'static mut BoundedAsyncReceiver<P> = unsafe { &mut *hp };
        self.rf = Some(match t {
          "fr" => RF::Recv(Box::pin(h.recv())),
          "frb" => RF::Batch(Box::pin(h.recv_batch(a))),
          _ => {
            let v: *mut Vec<P> = Box::into_raw(Box::new(Vec::new()));
            let vr: &'static mut Vec<P> = unsafe { &mut *v };
            RF::BatchMut(Box::pin(h.recv_batch_mut(vr, a)), v)
          }
        });
        "ok".into()
      }
      "pr" => {
        let w = self.waker(a);
        let mut cx = Context::from_waker(&w);
        let out = match &mut self.rf {
          None => return "nofut".into(),
          Some(RF::Recv(f)) => match f.as_mut().poll(&mut cx) {
            Poll::Pending => return "pending".into(),
            Poll::Ready(Ok(p)) => format!("v {}", take(p)),
            Poll::Ready(Err(_)) => "disc".to_string(),
          },
          Some(RF::Batch(f)) => match f.as_mut().poll(&mut cx) {
            Poll::Pending => return "pending".into(),
            Poll::Ready(Ok(v)) => format!("vs {}", ids(&take_all(v))),
            Poll::Ready(Err(_)) => "disc".to_string(),
          },
          Some(RF::BatchMut(f, _)) => match f.as_mut().poll(&mut cx) {
            Poll::Pending => return "pending".into(),
            Poll::Ready(Ok(n)) => format!("n{n}"),
            Poll::Ready(Err(_)) => "disc".to_string(),
          },
        };
        match self.rf.take() {
          Some(RF::BatchMut(f, v)) => {
            drop(f);
            let got = take_all(*unsafe { Box::from_raw(v) });
            if out == "disc" {
              if got.is_empty() { out } else { format!("err-with-values {}", ids(&got)) }
            } else if out == format!("n{}", got.len()) {
              format!("vs {}", ids(&got))
            } else {
              format!("vs-count-mismatch {} {}", out, ids(&got))
            }
          }
          other => {
            drop(other);
            out
          }
        }
      }
      "xr" => match self.rf.take() {
        None => "nofut".into(),
        Some(RF::BatchMut(f, v)) => {
          drop(f);
          let got = take_all(*unsafe { Box::from_raw(v) });
          if got.is_empty() { "ok".into() } else { format!("dropped-future-left-values {}", ids(&got)) }
        }
        Some(other) => {
          drop(other);
          "ok".into()
        }
      },
      "nx" => {
        let w = self.waker(a);
        let mut cx = Context::from_waker(&w);
        match &mut self.r {
          R::Async(h) => match Pin::new(&mut **h).poll_next(&mut cx) {
            Poll::Pending => "pending".into(),
            Poll::Ready(Some(p)) => format!("v {}", take(p)),
            Poll::Ready(None) => "none".into(),
          },
          _ => "na".into(),
        }
      }
      _ => format!("BADOP {t}"),
    }
  }
}

fn reason(r: BatchSendErrorReason) -> &'static str {
  match r {
    BatchSendErrorReason::Full => "full",
    BatchSendErrorReason::Closed => "closed",
  }
}

fn arity(t: &str) -> usize {
  match t {
    "tsb" | "sb" | "tsbm" | "sbm" | "fsb" | "fsbm" | "ps" | "trb" | "trbm" | "rb" | "rbm" | "frb" | "frbm" | "pr" | "nx" => 1,
    _ => 0,
  }
}

fn run_case(toks: Vec<String>, partial: Arc<Mutex<Vec<String>>>) {
  let cap: usize = toks[0].parse().unwrap();
  let (s, r) = if toks[1] == "s" {
    let (s, r) = bounded_sync::<P>(cap);
    (S::Sync(s), R::Sync(r))
  } else {
    let (s, r) = bounded_async::<P>(cap);
    (S::Async(Box::new(s)), R::Async(Box::new(r)))
  };
  let mut c = Case { s, r, sf: None, rf: None, next: 0, wlog: Arc::new(Mutex::new(Vec::new())) };
  let mut ops: Vec<(String, usize)> = Vec::new();
  let mut i = 3;
  while i < toks.len() {
    let t = toks[i].clone();
    let k = arity(&t);
    let a = if k == 1 { toks.get(i + 1).and_then(|x| x.parse().ok()).unwrap_or(0) } else { 0 };
    ops.push((t, a));
    i += 1 + k;
  }
  for t in ["xs", "xr", "ds", "dr"] {
    ops.push((t.to_string(), 0));
  }
  for (t, a) in ops {
    let res = catch_unwind(AssertUnwindSafe(|| c.op(&t, a)));
    let mut g = match res {
      Ok(s) => s,
      Err(_) => {
        partial.lock().unwrap().push("PANIC".into());
        // leak everything: the state after a panic is unspecified
        std::mem::forget(c);
        return;
      }
    };
    let w: Vec<usize> = std::mem::take(&mut *c.wlog.lock().unwrap());
    let d: Vec<usize> = DROPS.with(|d| std::mem::take(&mut *d.borrow_mut()));
    if !w.is_empty() {
      g.push_str(&format!(" w:{}", w.iter().map(|x| x.to_string()).collect::<Vec<_>>().join(",")));
    }
    if !d.is_empty() {
      g.push_str(&format!(" d:{}", d.iter().map(|x| x.to_string()).collect::<Vec<_>>().join(",")));
    }
    partial.lock().unwrap().push(g);
  }
}

fn run(toks: &[&str]) -> String {
  if toks.len() < 3 {
    return "BADCASE".into();
  }
  let owned: Vec<String> = toks.iter().map(|s| s.to_string()).collect();
  let partial = Arc::new(Mutex::new(Vec::new()));
  let p2 = partial.clone();
  let (tx, rx) = mpsc::channel::<()>();
  // every case runs on its own thread under a watchdog: a sequential op that does not return is `HANG`
  let _ = std::thread::Builder::new().stack_size(1 << 20).spawn(move || {
    run_case(owned, p2);
    let _ = tx.send(());
  });
  match rx.recv_timeout(Duration::from_millis(30000)) {
    Ok(()) => partial.lock().unwrap().join(" ; "),
    Err(mpsc::RecvTimeoutError::Timeout) => {
      let mut v = partial.lock().unwrap().clone();
      v.push("HANG".into());
      v.join(" ; ")
    }
    Err(mpsc::RecvTimeoutError::Disconnected) => {
      // thread ended without reporting: run_case returned early after PANIC
      partial.lock().unwrap().join(" ; ")
    }
  }
}

fn main() {
  seqdrv::main_loop(run);
}
