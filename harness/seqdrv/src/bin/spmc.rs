//! E-CHANOPS-spmc (exe `spmc`): drive the broadcast SPMC channel fibre::spmc through its public API.
//! Case:   <cap> <s|a> <fx> op*          (format mirrored by /verif/ocaml/eng_spmc.ml)
//! Output: one token group per op joined by " ; ", each followed by `^w` per waker invocation
//!         during that op; then ` | W c0 c1 c2 c3 | D id:drops,...` after the teardown of every
//!         future, receiver and the sender (in id order).
//! Every case runs in its own thread under a watchdog: an op that does not return within 3 s is the
//! output `HANG` and the case is abandoned (the thread is leaked).
//! Futures borrow their handle (`&'a Receiver`); handles live in Boxes that are neither moved nor
//! dropped while one of their futures is alive (the BUSY rule, same in the model), so the lifetime
//! is extended to 'static through a raw pointer.
use fibre::error::{BatchSendErrorReason, RecvError, RecvErrorTimeout, SendError, TryRecvError, TrySendError};
use fibre::spmc::{
  self, BoundedAsyncReceiver, BoundedAsyncSender, BoundedSyncReceiver, BoundedSyncSender, RecvBatchFuture,
  RecvFuture, SendBatchFuture, SendBatchMutFuture, SendFuture,
};
use futures_util::Stream;
use std::collections::{BTreeMap, BTreeSet};
use std::future::Future;
use std::panic::{catch_unwind, AssertUnwindSafe};
use std::pin::Pin;
use std::sync::atomic::{AtomicUsize, Ordering};
use std::sync::{mpsc, Arc, Mutex};
use std::task::{Context, Poll, Wake, Waker};
use std::time::Duration;

const NW: usize = 4;

struct Ctr {
  drops: Mutex<BTreeMap<u32, u32>>,
}

struct P {
  id: u32,
  ctr: Arc<Ctr>,
}
impl Clone for P {
  fn clone(&self) -> Self {
    P { id: self.id, ctr: self.ctr.clone() }
  }
}
impl Drop for P {
  fn drop(&mut self) {
    *self.ctr.drops.lock().unwrap().entry(self.id).or_insert(0) += 1;
  }
}

struct CW(AtomicUsize);
impl Wake for CW {
  fn wake(self: Arc<Self>) {
    self.0.fetch_add(1, Ordering::SeqCst);
  }
  fn wake_by_ref(self: &Arc<Self>) {
    self.0.fetch_add(1, Ordering::SeqCst);
  }
}

enum Tx {
  S(BoundedSyncSender<P>),
  A(BoundedAsyncSender<P>),
}
enum Rx {
  S(BoundedSyncReceiver<P>),
  A(BoundedAsyncReceiver<P>),
}
struct RxH {
  h: Box<Rx>,
  closed_by_me: bool,
}
struct TxH {
  h: Box<Tx>,
  closed_by_me: bool,
}

enum Fut {
  Recv(Pin<Box<RecvFuture<'static, P>>>, u32),
  RecvB(Pin<Box<RecvBatchFuture<'static, P>>>, u32),
  Send(Pin<Box<SendFuture<'static, P>>>),
  SendB(Pin<Box<SendBatchFuture<'static, P>>>),
  SendM(Option<Pin<Box<SendBatchMutFuture<'static, P>>>>, *mut Vec<P>),
}
impl Drop for Fut {
  fn drop(&mut self) {
    if let Fut::SendM(f, items) = self {
      // the future (which holds &mut *items) goes first, then the vector it borrowed
      drop(f.take());
      unsafe { drop(Box::from_raw(*items)) };
    }
  }
}

fn ids(v: &[P]) -> String {
  if v.is_empty() {
    "-".to_string()
  } else {
    v.iter().map(|p| p.id.to_string()).collect::<Vec<_>>().join(",")
  }
}

struct World {
  ctr: Arc<Ctr>,
  tx: Option<TxH>,
  rxs: BTreeMap<u32, RxH>,
  rx_used: BTreeSet<u32>,
  futs: BTreeMap<u32, Fut>,
  fut_used: BTreeSet<u32>,
  wk: Vec<Arc<CW>>,
  wakers: Vec<Waker>,
  fx: bool,
}

impl World {
  fn pay(&self, id: u32) -> P {
    P { id, ctr: self.ctr.clone() }
  }
  fn pays(&self, ids: &[u32]) -> Vec<P> {
    ids.iter().map(|&i| self.pay(i)).collect()
  }
  fn rx_busy(&self, r: u32) -> bool {
    self.futs.values().any(|f| match f {
      Fut::Recv(_, r2) | Fut::RecvB(_, r2) => *r2 == r,
      _ => false,
    })
  }
  fn tx_busy(&self) -> bool {
    self.futs.values().any(|f| matches!(f, Fut::Send(_) | Fut::SendB(_) | Fut::SendM(..)))
  }
}

fn b(x: bool) -> u8 {
  x as u8
}

fn show_try(r: Result<P, TryRecvError>) -> String {
  match r {
    Ok(p) => format!("v {}", p.id),
    Err(TryRecvError::Empty) => "empty".into(),
    Err(TryRecvError::Disconnected) => "disc".into(),
  }
}
fn show_tryb(r: Result<Vec<P>, TryRecvError>) -> String {
  match r {
    Ok(v) => format!("vs {}", ids(&v)),
    Err(TryRecvError::Empty) => "empty".into(),
    Err(TryRecvError::Disconnected) => "disc".into(),
  }
}
fn show_trysend(r: Result<(), TrySendError<P>>) -> String {
  match r {
    Ok(()) => "ok".into(),
    Err(TrySendError::Full(p)) => format!("full {}", p.id),
    Err(TrySendError::Closed(p)) => format!("closed {}", p.id),
    Err(TrySendError::Sent(p)) => format!("sent {}", p.id),
  }
}
fn show_send(r: Result<(), SendError>) -> String {
  match r {
    Ok(()) => "ok".into(),
    Err(SendError::Closed) => "closed".into(),
    Err(_) => "senderr".into(),
  }
}
fn show_tsb(r: Result<usize, fibre::error::TrySendBatchError<P>>) -> String {
  match r {
    Ok(n) => format!("bok {n}"),
    Err(e) => {
      let why = match e.reason {
        BatchSendErrorReason::Full => "bfull",
        BatchSendErrorReason::Closed => "bclosed",
      };
      format!("{why} {} {}", e.sent, ids(&e.unsent))
    }
  }
}
fn show_sb(r: Result<usize, fibre::error::SendBatchError<P>>) -> String {
  match r {
    Ok(n) => format!("bok {n}"),
    Err(e) => format!("berr {} {}", e.sent, ids(&e.unsent)),
  }
}
fn show_mut(r: Result<usize, SendError>, rem: &[P]) -> String {
  match r {
    Ok(k) => format!("mok {k} {}", ids(rem)),
    Err(_) => format!("mclosed {}", ids(rem)),
  }
}

/// executes one op starting at toks[i]; returns (tokens consumed, output)
fn exec(w: &mut World, toks: &[String], i: usize) -> (usize, String) {
  let num = |k: usize| toks[i + k].parse::<u32>().unwrap();
  let list = |k: usize| -> (usize, Vec<u32>) {
    let n = toks[i + k].parse::<usize>().unwrap();
    (k + 1 + n, (0..n).map(|j| toks[i + k + 1 + j].parse::<u32>().unwrap()).collect())
  };
  let na = "NA".to_string();
  match toks[i].as_str() {
    // ---------------- sender
    "ts" => {
      let v = num(1);
      let Some(t) = &w.tx else { return (2, na) };
      let p = w.pay(v);
      let r = match &*t.h {
        Tx::S(s) => s.try_send(p),
        Tx::A(s) => s.try_send(p),
      };
      (2, show_trysend(r))
    }
    "sd" => {
      let v = num(1);
      let Some(t) = &w.tx else { return (2, na) };
      let Tx::S(s) = &*t.h else { return (2, na) };
      if !t.closed_by_me && !s.is_closed() && s.len() >= s.capacity() {
        return (2, "WOULDBLOCK".into());
      }
      let p = w.pay(v);
      (2, show_send(s.send(p)))
    }
    "tsb" | "tsm" | "sdb" | "sdm" => {
      let (used, vs) = list(1);
      let Some(t) = &w.tx else { return (used, na) };
      let blocking = toks[i] == "sdb" || toks[i] == "sdm";
      if blocking {
        let Tx::S(s) = &*t.h else { return (used, na) };
        let space = s.capacity().saturating_sub(s.len());
        if !vs.is_empty() && !t.closed_by_me && !s.is_closed() && vs.len() > space {
          return (used, "WOULDBLOCK".into());
        }
      }
      let items = w.pays(&vs);
      let out = match (toks[i].as_str(), &*t.h) {
        ("tsb", Tx::S(s)) => show_tsb(s.try_send_batch(items)),
        ("tsb", Tx::A(s)) => show_tsb(s.try_send_batch(items)),
        ("sdb", Tx::S(s)) => show_sb(s.send_batch(items)),
        ("tsm", Tx::S(s)) => {
          let mut items = items;
          let r = s.try_send_batch_mut(&mut items);
          show_mut(r, &items)
        }
        ("tsm", Tx::A(s)) => {
          let mut items = items;
          let r = s.try_send_batch_mut(&mut items);
          show_mut(r, &items)
        }
        ("sdm", Tx::S(s)) => {
          let mut items = items;
          let r = s.send_batch_mut(&mut items);
          show_mut(r, &items)
        }
        _ => unreachable!(),
      };
      (used, out)
    }
    "scl" => {
      if w.tx.is_none() {
        return (1, na);
      }
      if w.tx_busy() {
        return (1, "BUSY".into());
      }
      let t = w.tx.as_mut().unwrap();
      let r = match &mut *t.h {
        Tx::S(s) => s.close(),
        Tx::A(s) => s.close(),
      };
      if r.is_ok() {
        t.closed_by_me = true;
      }
      (1, if r.is_ok() { "ok".into() } else { "cerr".into() })
    }
    "sdr" => {
      if w.tx.is_none() {
        return (1, na);
      }
      if w.tx_busy() {
        return (1, "BUSY".into());
      }
      w.tx = None;
      (1, "ok".into())
    }
    "scv" => {
      if w.tx.is_none() {
        return (1, na);
      }
      if w.tx_busy() {
        return (1, "BUSY".into());
      }
      let t = w.tx.take().unwrap();
      let h = match *t.h {
        Tx::S(s) => Tx::A(s.to_async()),
        Tx::A(s) => Tx::S(s.to_sync()),
      };
      w.tx = Some(TxH { h: Box::new(h), closed_by_me: t.closed_by_me && w.fx });
      (1, "ok".into())
    }
    "sob" => {
      let Some(t) = &w.tx else { return (1, na) };
      let (l, e, f, c, cp) = match &*t.h {
        Tx::S(s) => (s.len(), s.is_empty(), s.is_full(), s.is_closed(), s.capacity()),
        Tx::A(s) => (s.len(), s.is_empty(), s.is_full(), s.is_closed(), s.capacity()),
      };
      (1, format!("obs {l} {} {} {} {cp}", b(e), b(f), b(c)))
    }
    // ---------------- receivers
    "tr" => {
      let Some(r) = w.rxs.get(&num(1)) else { return (2, na) };
      let res = match &*r.h {
        Rx::S(x) => x.try_recv(),
        Rx::A(x) => x.try_recv(),
      };
      (2, show_try(res))
    }
    "rv" => {
      let Some(r) = w.rxs.get(&num(1)) else { return (2, na) };
      let Rx::S(x) = &*r.h else { return (2, na) };
      if !r.closed_by_me && x.is_empty() && !x.is_closed() {
        return (2, "WOULDBLOCK".into());
      }
      let out = match x.recv() {
        Ok(p) => format!("v {}", p.id),
        Err(RecvError::Disconnected) => "disc".into(),
      };
      (2, out)
    }
    "rt" => {
      let Some(r) = w.rxs.get(&num(1)) else { return (2, na) };
      let Rx::S(x) = &*r.h else { return (2, na) };
      let out = match x.recv_timeout(Duration::ZERO) {
        Ok(p) => format!("v {}", p.id),
        Err(RecvErrorTimeout::Disconnected) => "disc".into(),
        Err(RecvErrorTimeout::Timeout) => "timeout".into(),
      };
      (2, out)
    }
    "trb" => {
      let Some(r) = w.rxs.get(&num(1)) else { return (3, na) };
      let n = num(2) as usize;
      let res = match &*r.h {
        Rx::S(x) => x.try_recv_batch(n),
        Rx::A(x) => x.try_recv_batch(n),
      };
      (3, show_tryb(res))
    }
    "rvb" => {
      let Some(r) = w.rxs.get(&num(1)) else { return (3, na) };
      let n = num(2) as usize;
      let Rx::S(x) = &*r.h else { return (3, na) };
      if n > 0 && !r.closed_by_me && x.is_empty() && !x.is_closed() {
        return (3, "WOULDBLOCK".into());
      }
      let out = match x.recv_batch(n) {
        Ok(v) => format!("vs {}", ids(&v)),
        Err(RecvError::Disconnected) => "disc".into(),
      };
      (3, out)
    }
    "cl" => {
      let Some(r) = w.rxs.get_mut(&num(1)) else { return (2, na) };
      let res = match &*r.h {
        Rx::S(x) => x.close(),
        Rx::A(x) => x.close(),
      };
      if res.is_ok() {
        r.closed_by_me = true;
      }
      (2, if res.is_ok() { "ok".into() } else { "cerr".into() })
    }
    "dr" => {
      let r = num(1);
      if !w.rxs.contains_key(&r) {
        return (2, na);
      }
      if w.rx_busy(r) {
        return (2, "BUSY".into());
      }
      w.rxs.remove(&r);
      (2, "ok".into())
    }
    "cn" => {
      let (r, c) = (num(1), num(2));
      let Some(x) = w.rxs.get(&r) else { return (3, na) };
      if w.rx_used.contains(&c) {
        return (3, na);
      }
      let h = match &*x.h {
        Rx::S(x) => Rx::S(x.clone()),
        Rx::A(x) => Rx::A(x.clone()),
      };
      let cbm = w.fx && x.closed_by_me;
      w.rxs.insert(c, RxH { h: Box::new(h), closed_by_me: cbm });
      w.rx_used.insert(c);
      (3, "ok".into())
    }
    "cv" => {
      let r = num(1);
      if !w.rxs.contains_key(&r) {
        return (2, na);
      }
      if w.rx_busy(r) {
        return (2, "BUSY".into());
      }
      let x = w.rxs.remove(&r).unwrap();
      let h = match *x.h {
        Rx::S(s) => Rx::A(s.to_async()),
        Rx::A(s) => Rx::S(s.to_sync()),
      };
      w.rxs.insert(r, RxH { h: Box::new(h), closed_by_me: x.closed_by_me && w.fx });
      (2, "ok".into())
    }
    "ob" => {
      let Some(r) = w.rxs.get(&num(1)) else { return (2, na) };
      let (l, e, f, c, cp) = match &*r.h {
        Rx::S(s) => (s.len(), s.is_empty(), s.is_full(), s.is_closed(), s.capacity()),
        Rx::A(s) => (s.len(), s.is_empty(), s.is_full(), s.is_closed(), s.capacity()),
      };
      (2, format!("obs {l} {} {} {} {cp}", b(e), b(f), b(c)))
    }
    // ---------------- futures
    "mr" | "mrb" => {
      let batch = toks[i] == "mrb";
      let used = if batch { 4 } else { 3 };
      let (f, r) = (num(1), num(2));
      let Some(x) = w.rxs.get(&r) else { return (used, na) };
      let Rx::A(a) = &*x.h else { return (used, na) };
      if w.fut_used.contains(&f) {
        return (used, na);
      }
      let a: &'static BoundedAsyncReceiver<P> = unsafe { &*(a as *const _) };
      let fut = if batch {
        Fut::RecvB(Box::pin(a.recv_batch(num(3) as usize)), r)
      } else {
        Fut::Recv(Box::pin(a.recv()), r)
      };
      w.futs.insert(f, fut);
      w.fut_used.insert(f);
      (used, "ok".into())
    }
    "ms" => {
      let (f, v) = (num(1), num(2));
      let Some(t) = &w.tx else { return (3, na) };
      let Tx::A(a) = &*t.h else { return (3, na) };
      if w.fut_used.contains(&f) {
        return (3, na);
      }
      let a: &'static BoundedAsyncSender<P> = unsafe { &*(a as *const _) };
      let p = w.pay(v);
      w.futs.insert(f, Fut::Send(Box::pin(a.send(p))));
      w.fut_used.insert(f);
      (3, "ok".into())
    }
    "msb" | "msm" => {
      let f = num(1);
      let (used, vs) = list(2);
      let Some(t) = &w.tx else { return (used, na) };
      let Tx::A(a) = &*t.h else { return (used, na) };
      if w.fut_used.contains(&f) {
        return (used, na);
      }
      let a: &'static BoundedAsyncSender<P> = unsafe { &*(a as *const _) };
      let items = w.pays(&vs);
      let fut = if toks[i] == "msb" {
        Fut::SendB(Box::pin(a.send_batch(items)))
      } else {
        let raw: *mut Vec<P> = Box::into_raw(Box::new(items));
        let r: &'static mut Vec<P> = unsafe { &mut *raw };
        Fut::SendM(Some(Box::pin(a.send_batch_mut(r))), raw)
      };
      w.futs.insert(f, fut);
      w.fut_used.insert(f);
      (used, "ok".into())
    }
    "pl" => {
      let (f, wi) = (num(1), num(2) as usize % NW);
      let waker = w.wakers[wi].clone();
      let mut cx = Context::from_waker(&waker);
      let Some(fut) = w.futs.get_mut(&f) else { return (3, na) };
      let res: Option<String> = match fut {
        Fut::Recv(p, _) => match p.as_mut().poll(&mut cx) {
          Poll::Pending => None,
          Poll::Ready(Ok(v)) => Some(format!("v {}", v.id)),
          Poll::Ready(Err(_)) => Some("disc".into()),
        },
        Fut::RecvB(p, _) => match p.as_mut().poll(&mut cx) {
          Poll::Pending => None,
          Poll::Ready(Ok(v)) => Some(format!("vs {}", ids(&v))),
          Poll::Ready(Err(_)) => Some("disc".into()),
        },
        Fut::Send(p) => match p.as_mut().poll(&mut cx) {
          Poll::Pending => None,
          Poll::Ready(r) => Some(show_send(r)),
        },
        Fut::SendB(p) => match p.as_mut().poll(&mut cx) {
          Poll::Pending => None,
          Poll::Ready(r) => Some(show_sb(r)),
        },
        Fut::SendM(p, raw) => match p.as_mut().unwrap().as_mut().poll(&mut cx) {
          Poll::Pending => None,
          Poll::Ready(r) => {
            // the future is finished: release its borrow before looking at the vector
            *p = None;
            let rem: &Vec<P> = unsafe { &**raw };
            Some(match r {
              Ok(k) => format!("mok {k} {}", ids(rem)),
              Err(_) => {
                let sent = "?";
                let _ = sent;
                format!("mclosed {}", ids(rem))
              }
            })
          }
        },
      };
      match res {
        None => (3, "pending".into()),
        Some(s) => {
          w.futs.remove(&f);
          (3, format!("ready {s}"))
        }
      }
    }
    "df" => {
      let f = num(1);
      if w.futs.remove(&f).is_none() {
        return (2, na);
      }
      (2, "ok".into())
    }
    "pn" => {
      let (r, wi) = (num(1), num(2) as usize % NW);
      if !w.rxs.contains_key(&r) {
        return (3, na);
      }
      if !matches!(&*w.rxs[&r].h, Rx::A(_)) {
        return (3, na);
      }
      if w.rx_busy(r) {
        return (3, "BUSY".into());
      }
      let waker = w.wakers[wi].clone();
      let mut cx = Context::from_waker(&waker);
      let Rx::A(a) = &mut *w.rxs.get_mut(&r).unwrap().h else { unreachable!() };
      let out = match Pin::new(a).poll_next(&mut cx) {
        Poll::Pending => "pending".to_string(),
        Poll::Ready(Some(v)) => format!("ready v {}", v.id),
        Poll::Ready(None) => "ready none".to_string(),
      };
      (3, out)
    }
    "snap" => {
      let d = w.ctr.drops.lock().unwrap();
      let s = if d.is_empty() {
        "-".to_string()
      } else {
        d.iter().map(|(k, v)| format!("{k}:{v}")).collect::<Vec<_>>().join(",")
      };
      (1, format!("snap {s}"))
    }
    t => panic!("bad op token {t}"),
  }
}

fn run_case(toks: Vec<String>, tx_out: mpsc::Sender<String>) {
  let cap = toks[0].parse::<usize>().unwrap();
  let is_async = toks[1] == "a";
  let fx = toks[2] == "1";
  let ctr = Arc::new(Ctr { drops: Mutex::new(BTreeMap::new()) });
  let wk: Vec<Arc<CW>> = (0..NW).map(|_| Arc::new(CW(AtomicUsize::new(0)))).collect();
  let wakers: Vec<Waker> = wk.iter().map(|a| Waker::from(a.clone())).collect();
  let (txh, rxh) = if is_async {
    let (t, r) = spmc::bounded_async::<P>(cap);
    (Tx::A(t), Rx::A(r))
  } else {
    let (t, r) = spmc::bounded::<P>(cap);
    (Tx::S(t), Rx::S(r))
  };
  let mut w = World {
    ctr: ctr.clone(),
    tx: Some(TxH { h: Box::new(txh), closed_by_me: false }),
    rxs: BTreeMap::new(),
    rx_used: BTreeSet::new(),
    futs: BTreeMap::new(),
    fut_used: BTreeSet::new(),
    wk: wk.clone(),
    wakers,
    fx,
  };
  w.rxs.insert(0, RxH { h: Box::new(rxh), closed_by_me: false });
  w.rx_used.insert(0);
  let mut i = 3;
  let mut first = true;
  while i < toks.len() {
    let before: Vec<usize> = w.wk.iter().map(|c| c.0.load(Ordering::SeqCst)).collect();
    let r = catch_unwind(AssertUnwindSafe(|| exec(&mut w, &toks, i)));
    let mut s = String::new();
    if !first {
      s.push_str(" ; ");
    }
    first = false;
    match r {
      Ok((used, out)) => {
        s.push_str(&out);
        for (k, c) in w.wk.iter().enumerate() {
          for _ in before[k]..c.0.load(Ordering::SeqCst) {
            s.push_str(&format!(" ^{k}"));
          }
        }
        i += used;
        let _ = tx_out.send(s);
      }
      Err(_) => {
        s.push_str("PANIC");
        let _ = tx_out.send(s);
        // the channel state is unknown after a panic: leak everything, abandon the case
        std::mem::forget(w);
        let _ = tx_out.send("\u{0}END".into());
        return;
      }
    }
  }
  // teardown: futures, receivers, sender (id order); the shared state goes with the last handle
  let td = catch_unwind(AssertUnwindSafe(|| {
    while let Some((&f, _)) = w.futs.iter().next() {
      w.futs.remove(&f);
    }
    while let Some((&r, _)) = w.rxs.iter().next() {
      w.rxs.remove(&r);
    }
    w.tx = None;
  }));
  let mut s = String::new();
  if td.is_err() {
    s.push_str(" ; PANIC");
  }
  s.push_str(" | W");
  for c in wk.iter() {
    s.push_str(&format!(" {}", c.0.load(Ordering::SeqCst)));
  }
  s.push_str(" | D ");
  {
    let d = ctr.drops.lock().unwrap();
    if d.is_empty() {
      s.push('-');
    } else {
      s.push_str(&d.iter().map(|(k, v)| format!("{k}:{v}")).collect::<Vec<_>>().join(","));
    }
  }
  let _ = tx_out.send(s);
  let _ = tx_out.send("\u{0}END".into());
}

fn run(toks: &[&str]) -> String {
  let owned: Vec<String> = toks.iter().map(|s| s.to_string()).collect();
  let (tx_out, rx_out) = mpsc::channel::<String>();
  let _ = std::thread::Builder::new().name("case".into()).spawn(move || run_case(owned, tx_out));
  let mut out = String::new();
  loop {
    match rx_out.recv_timeout(Duration::from_secs(30)) {
      Ok(s) if s == "\u{0}END" => break,
      Ok(s) => out.push_str(&s),
      Err(mpsc::RecvTimeoutError::Timeout) => {
        out.push_str(if out.is_empty() { "HANG" } else { " ; HANG" });
        break;
      }
      Err(mpsc::RecvTimeoutError::Disconnected) => {
        out.push_str(" ; DRIVER-THREAD-DIED");
        break;
      }
    }
  }
  out
}

fn main() {
  seqdrv::main_loop(run);
}
