//! seqdrv — runs generated cases on the real fibre API.
//! stdin: one case per line "<engine> <case...>"; stdout: one result line per case.
//! Output formats mirror /verif/ocaml/eng_*.ml exactly; `check` diffs them.
use std::io::{self, BufRead, Write};

mod eng_policy;

fn main() {
  // panics inside an op are an *output*, not a crash: keep the default hook quiet
  std::panic::set_hook(Box::new(|_| {}));
  let stdin = io::stdin();
  let stdout = io::stdout();
  let mut out = io::BufWriter::new(stdout.lock());
  for line in stdin.lock().lines() {
    let line = line.unwrap();
    let toks: Vec<&str> = line.split_whitespace().collect();
    let res = if toks.is_empty() {
      String::new()
    } else {
      match toks[0] {
        "policy" => eng_policy::run(&toks[1..]),
        e => format!("unknown engine {e}"),
      }
    };
    writeln!(out, "{res}").unwrap();
  }
  out.flush().unwrap();
}
